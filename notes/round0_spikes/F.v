From Coq Require Import ZArith Reals Lia Lra.
From Flocq Require Import Core Binary Bits.
From Flocq Require Import BinarySingleNaN.

Definition prec := 53%Z.
Definition emax := 1024%Z.
Lemma Hprec : Prec_gt_0 prec. Proof. unfold Prec_gt_0, prec; lia. Qed.
Lemma Hmax : Prec_lt_emax prec emax. Proof. unfold Prec_lt_emax, prec, emax; lia. Qed.
#[global] Existing Instance Hprec.
#[global] Existing Instance Hmax.

Definition f64 := binary_float prec emax.
Definition ffloor (x : f64) : f64 := Bnearbyint mode_DN x.
Definition fceil (x : f64) : f64 := Bnearbyint mode_UP x.
Definition ftrunc (x : f64) : f64 := Bnearbyint mode_ZR x.
Definition fround (x : f64) : f64 := Bnearbyint mode_NA x.
Definition fone : f64 := Bone.
Definition fadd (x y : f64) : f64 := Bplus mode_NE x y.
Definition fsub (x y : f64) : f64 := Bminus mode_NE x y.

Definition of_bits (z : Z) : f64 := Binary.B2BSN _ _ (b64_of_bits z).
Definition to_bits (x : f64) : Z := 
  match x with
  | B754_nan => 0x7FF8000000000000
  | B754_zero s => if s then 0x8000000000000000 else 0
  | B754_infinity s => if s then 0xFFF0000000000000 else 0x7FF0000000000000
  | B754_finite s m e _ =>
     let sb := if s then 0x8000000000000000 else 0 in
     if Z.leb (2^52) (Z.pos m) then sb + (e + 1075) * 2^52 + (Z.pos m - 2^52)
     else sb + Z.pos m
  end%Z.
(* 2.5 = 0x4004000000000000 *)
Eval vm_compute in to_bits (ffloor (of_bits 0x4004000000000000)).
Eval vm_compute in to_bits (fadd (ffloor (of_bits 0xC004000000000000)) fone).

Theorem floor_le x : is_finite x = true -> (B2R (ffloor x) <= B2R x)%R.
Proof.
  intros Hf. unfold ffloor.
  destruct (Bnearbyint_correct prec emax Hmax mode_DN x) as [H _].
  rewrite H. simpl round_mode.
  apply round_DN_pt. apply FIX_exp_valid.
Qed.

Theorem floor_is_int x : is_finite x = true -> exists n : Z, B2R (ffloor x) = IZR n.
Proof.
  intros Hf. unfold ffloor.
  destruct (Bnearbyint_correct prec emax Hmax mode_DN x) as [H _].
  rewrite H. simpl round_mode.
  exists (Zfloor (B2R x)).
  rewrite round_FIX_IZR. reflexivity.
Qed.
Print Assumptions floor_is_int.
