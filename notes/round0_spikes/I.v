From Coq Require Import List Arith Lia Bool.
Import ListNotations.

(* base tokens as the wrapper sees them: NEWLINE with the width of the following indentation and
   whether the following line is blank/comment-only (D9 repair), any other token, EOF *)
Inductive btok := BNL (w : nat) (skip : bool) | BOther (t : nat) | BEOF.
Inductive tok := TNL | TIndent | TDedent | TOther (t : nat) | TEOF.

(* pop while cur < top *)
Fixpoint dedents (cur : nat) (st : list nat) : list tok * list nat :=
  match st with
  | [] => ([], [])
  | top :: rest => if cur <? top then let (ts, st') := dedents cur rest in (TDedent :: ts, st')
                   else ([], st)
  end.

Definition on_newline (cur : nat) (st : list nat) : list tok * list nat :=
  let prev := hd 0 st in
  if prev <? cur then ([TIndent], cur :: st)
  else if cur <? prev then dedents cur st
  else ([], st).

Fixpoint wrap (ts : list btok) (st : list nat) : list tok :=
  match ts with
  | [] => []
  | BNL w skip :: r => if skip then TNL :: wrap r st
                       else let (out, st') := on_newline w st in TNL :: out ++ wrap r st'
  | BOther t :: r => TOther t :: wrap r st
  | BEOF :: _ => map (fun _ => TDedent) st ++ [TEOF]       (* first EOF ends the stream *)
  end.

Definition count (k : tok -> bool) (l : list tok) := length (filter k l).
Definition isI t := match t with TIndent => true | _ => false end.
Definition isD t := match t with TDedent => true | _ => false end.

Definition sorted_desc (st : list nat) := forall i j, i < j -> j < length st -> nth j st 0 < nth i st 0.
(* simpler: strictly decreasing and positive *)
Fixpoint sdesc (st : list nat) : Prop :=
  match st with
  | [] => True
  | a :: r => 0 < a /\ (match r with [] => True | b :: _ => b < a end) /\ sdesc r
  end.

Lemma dedents_spec cur st : forall out st', dedents cur st = (out, st') ->
  count isI out = 0 /\ count isD out + length st' = length st /\ (sdesc st -> sdesc st').
Proof.
  induction st as [|top rest IH]; intros out st' H; simpl in H.
  - inversion H; subst. simpl. auto.
  - destruct (cur <? top) eqn:E.
    + destruct (dedents cur rest) as [ts s2] eqn:Ed. inversion H; subst.
      destruct (IH _ _ eq_refl) as (A & B & C). unfold count in *. simpl. split; [exact A|]. split; [lia|].
      intros (_ & _ & Hs). auto.
    + inversion H; subst. unfold count. simpl. auto.
Qed.

(* balance: #I - #D over the whole output = 0, given the stack at start is accounted for *)
Theorem wrap_balanced : forall ts st, In BEOF ts ->
  count isI (wrap ts st) + length st = count isD (wrap ts st).
Proof.
  induction ts as [|t r IH]; intros st Hin; [inversion Hin|].
  destruct t as [w skip| |]; simpl.
  - destruct Hin as [Hd|Hin]; [discriminate|].
    destruct skip.
    + unfold count in *. simpl. apply IH; assumption.
    + destruct (on_newline w st) as [out st'] eqn:Eo. unfold count in *. simpl.
      rewrite !filter_app, !app_length. specialize (IH st' Hin).
      unfold on_newline in Eo.
      destruct (hd 0 st <? w) eqn:E1.
      * inversion Eo; subst. simpl in *. lia.
      * destruct (w <? hd 0 st) eqn:E2.
        -- destruct (dedents_spec _ _ _ _ Eo) as (A & B & _). unfold count in *. lia.
        -- inversion Eo; subst. simpl. lia.
  - destruct Hin as [Hd|Hin]; [discriminate|]. unfold count in *. simpl. apply IH; assumption.
  - unfold count. rewrite !filter_app, !app_length. simpl.
    assert (H1 : length (filter isI (map (fun _ : nat => TDedent) st)) = 0) by (induction st; simpl; auto).
    assert (H2 : length (filter isD (map (fun _ : nat => TDedent) st)) = length st) by (induction st; simpl; auto).
    lia.
Qed.

(* order-type invariance: a strictly monotone relabelling of widths with phi 0 = 0 does not change
   the output *)
Section Relabel.
  Variable phi : nat -> nat.
  Hypothesis phi0 : phi 0 = 0.
  Hypothesis mono : forall a b, a < b <-> phi a < phi b.

  Definition rl (t : btok) := match t with BNL w s => BNL (phi w) s | x => x end.

  Lemma ltb_phi a b : (phi a <? phi b) = (a <? b).
  Proof. destruct (a <? b) eqn:E.
    - apply Nat.ltb_lt. apply (proj1 (mono a b)). apply Nat.ltb_lt. exact E.
    - apply Nat.ltb_ge. apply Nat.ltb_ge in E. destruct (Nat.lt_ge_cases (phi a) (phi b)) as [H|H]; [|exact H].
      apply (proj2 (mono a b)) in H. lia. Qed.

  Lemma dedents_phi cur st : dedents (phi cur) (map phi st) =
     (fst (dedents cur st), map phi (snd (dedents cur st))).
  Proof. induction st as [|top rest IH]; simpl; [reflexivity|].
    rewrite ltb_phi. destruct (cur <? top); [|reflexivity].
    rewrite IH. destruct (dedents cur rest). reflexivity. Qed.

  Lemma hd_phi st : hd 0 (map phi st) = phi (hd 0 st).
  Proof. destruct st; simpl; auto. Qed.

  Theorem wrap_order_type : forall ts st, wrap (map rl ts) (map phi st) = wrap ts st.
  Proof.
    induction ts as [|t r IH]; intros st; [reflexivity|].
    destruct t as [w skip| |]; simpl.
    - destruct skip; [rewrite IH; reflexivity|].
      unfold on_newline. rewrite hd_phi, !ltb_phi.
      destruct (hd 0 st <? w).
      + change (phi w :: map phi st) with (map phi (w :: st)). rewrite IH. reflexivity.
      + destruct (w <? hd 0 st).
        * rewrite dedents_phi. destruct (dedents w st) as [o s']. simpl. rewrite IH. reflexivity.
        * rewrite IH. reflexivity.
    - rewrite IH. reflexivity.
    - rewrite map_map. reflexivity.
  Qed.
End Relabel.

(* D9: blank/comment lines are transparent: inserting a skipped newline anywhere changes nothing
   but an extra TNL (hidden channel in BodyMode) *)
Definition visible t := match t with TNL => false | _ => true end.
Theorem skip_transparent : forall pre post st w,
  filter visible (wrap (pre ++ BNL w true :: post) st) = filter visible (wrap (pre ++ post) st).
Proof.
  induction pre as [|t r IH]; intros post st w; simpl; [reflexivity|].
  destruct t as [w' skip| |]; simpl.
  - destruct skip; simpl; [apply IH|].
    destruct (on_newline w' st) as [o s']. simpl. rewrite !filter_app. f_equal. apply IH.
  - f_equal. apply IH.
  - reflexivity.
Qed.
Print Assumptions wrap_order_type.
Print Assumptions wrap_balanced.
