import random, math, json, sys
random.seed(int(sys.argv[1]) if len(sys.argv)>1 else 1)
# precedence levels per property: unary(7) > */%(6) > +-(5) > < <= > >=(4) > == !=(3) > and or xor(2)
BIN = {'*':6,'/':6,'%':6,'+':5,'-':5,'<':4,'<=':4,'>':4,'>=':4,'==':3,'!=':3,'and':2,'or':2,'xor':2}
SPELL = {'<':['<','lt'],'<=':['<=','lte'],'>':['>','gt'],'>=':['>=','gte'],'==':['==','is','eq'],'!=':['!=','neq'],
         'and':['and','&&'],'or':['or','||'],'xor':['xor','^'],'not':['not ','!']}
def gen_num(d):
    if d==0 or random.random()<0.25:
        return ('n', random.choice([0,1,2,3,5,7,10,0.5,2.5,1.25]))
    r=random.random()
    if r<0.15: return ('neg', gen_num(d-1))
    return ('bin', random.choice(['*','/','%','+','-']), gen_num(d-1), gen_num(d-1))
def gen_bool(d):
    if d==0 or random.random()<0.2:
        return ('b', random.choice([True,False]))
    r=random.random()
    if r<0.15: return ('not', gen_bool(d-1))
    if r<0.45: return ('bin', random.choice(['<','<=','>','>=','==','!=']), gen_num(d-1), gen_num(d-1))
    if r<0.55: return ('bin', random.choice(['==','!=']), gen_bool(d-1), gen_bool(d-1))
    return ('bin', random.choice(['and','or','xor']), gen_bool(d-1), gen_bool(d-1))
def prec(e):
    if e[0]=='bin': return BIN[e[1]]
    if e[0] in('neg','not'): return 7
    return 9
def show(e, extra):
    k=e[0]
    if k=='n':
        v=e[1]; return str(v) if not float(v).is_integer() else str(int(v))
    if k=='b': return 'true' if e[1] else 'false'
    if k=='neg':
        s=show(e[1],extra); 
        if prec(e[1])<7: s='('+s+')'
        return '-'+s
    if k=='not':
        s=show(e[1],extra)
        if prec(e[1])<7: s='('+s+')'
        return random.choice(SPELL['not'])+s
    op=e[1]; p=BIN[op]
    l=show(e[2],extra); r=show(e[3],extra)
    if prec(e[2])<p: l='('+l+')'          # left assoc: equal prec on left needs no parens
    if prec(e[3])<=p: r='('+r+')'
    sp=random.choice(SPELL.get(op,[op]))
    s=l+' '+sp+' '+r
    if extra and random.random()<0.2: s='('+s+')'
    return s
def fmod(a,b):
    if b==0 or math.isinf(a) or math.isnan(a) or math.isnan(b): return float('nan')
    if math.isinf(b): return a
    return math.fmod(a,b)
def div(a,b):
    if b==0:
        if a==0 or math.isnan(a): return float('nan')
        return math.copysign(float('inf'), a) * math.copysign(1,b)
    return a/b
def ev(e):
    k=e[0]
    if k=='n': return float(e[1])
    if k=='b': return e[1]
    if k=='neg': return -ev(e[1])
    if k=='not': return not ev(e[1])
    op=e[1]
    if op=='and':
        l=ev(e[2]); return l and ev(e[3])
    if op=='or':
        l=ev(e[2]); return l or ev(e[3])
    a=ev(e[2]); b=ev(e[3])
    if op=='xor': return a!=b
    if op=='*': return a*b
    if op=='/': return div(a,b)
    if op=='%': return fmod(a,b)
    if op=='+': return a+b
    if op=='-': return a-b
    if op=='<': return a<b
    if op=='<=': return a<=b
    if op=='>': return a>b
    if op=='>=': return a>=b
    if op=='==': return a==b
    if op=='!=': return a!=b
def fmt(v):
    if isinstance(v,bool): return 'True' if v else 'False'
    if math.isnan(v): return 'NaN'
    if math.isinf(v): return '+Inf' if v>0 else '-Inf'
    if v==int(v) and abs(v)<2**63: return str(int(v))
    return repr(v)
lines=[]; exp=[]
for i in range(int(sys.argv[2]) if len(sys.argv)>2 else 2000):
    e = gen_num(4) if random.random()<0.4 else gen_bool(4)
    try:
        v=ev(e)
    except OverflowError:
        continue
    lines.append('{'+show(e, random.random()<0.5)+'}')
    exp.append(fmt(v))
open('/tmp/probe/p9/script.yarn','w').write('title: a\n---\n'+'\n'.join(lines)+'\n===\n')
json.dump(exp, open('/tmp/probe/p9/expected.json','w'))
print(len(lines))
