import random, json, sys
seed=int(sys.argv[1]); N=int(sys.argv[2])
R=random.Random(seed)
cnt=[0]
NAMES=[]
def fresh():
    cnt[0]+=1; return "L%d"%cnt[0]
def gen_block(depth, nodes, maxlen=4):
    out=[]
    for _ in range(R.randint(0 if depth>0 else 1, maxlen)):
        r=R.random()
        if depth>=4 or r<0.45:
            out.append(['line', fresh()])
        elif r<0.65:
            opts=[]
            for _ in range(R.randint(1,3)):
                cond=R.choice([None,None,True,False])
                body=gen_block(depth+1,nodes,3) if R.random()<0.8 else []
                opts.append([fresh(), cond, body])
            out.append(['opts', opts])
        elif r<0.85:
            clauses=[]
            n=R.randint(1,3)
            for i in range(n):
                clauses.append([R.choice([True,False]), gen_block(depth+1,nodes,3)])
            els = gen_block(depth+1,nodes,3) if R.random()<0.5 else None
            out.append(['if', clauses, els])
        elif r<0.95:
            out.append(['jump', R.choice(nodes)])
        else:
            out.append(['stop'])
    # avoid two consecutive option groups (would merge into one group syntactically)
    res=[]
    for s in out:
        if s[0]=='opts' and res and res[-1][0]=='opts':
            res.append(['line', fresh()])
        res.append(s)
    return res
def pr(block, ind, unit, lines, blank):
    for s in block:
        pad=unit*ind
        if blank and R.random()<0.3:
            lines.append('' if R.random()<0.5 else '// c')   # blank/comment lines at column 0 (only used at depth where safe)
        if s[0]=='line': lines.append(pad+s[1]+''.join(' {visited_count("%s")}{visited("%s")}'%(n,n) for n in NAMES))
        elif s[0]=='opts':
            for (label,cond,body) in s[1]:
                c='' if cond is None else ' <<if %s>>'%('true' if cond else 'false')
                lines.append(pad+'-> '+label+c)
                pr(body, ind+1, unit, lines, False)
        elif s[0]=='if':
            for i,(c,b) in enumerate(s[1]):
                lines.append(pad+('<<if %s>>' if i==0 else '<<elseif %s>>')%('true' if c else 'false'))
                pr(b, ind+1 if R.random()<0.5 else ind, unit, lines, False)
            if s[2] is not None:
                lines.append(pad+'<<else>>')
                pr(s[2], ind, unit, lines, False)
            lines.append(pad+'<<endif>>')
        elif s[0]=='jump': lines.append(pad+'<<jump %s>>'%s[1])
        elif s[0]=='stop': lines.append(pad+'<<stop>>')
# reference: flat continuation
def run(prog, order, choices, never, maxsteps=60):
    k=list(prog[order[0]]); node=order[0]; trace=[]; ci=0; steps=0; vc={n:0 for n in order}
    while True:
        steps+=1
        if steps>400: trace.append('LOOP'); return trace
        if len(trace)>=maxsteps: return trace
        if not k: trace.append('END'); return trace
        s=k.pop(0)
        if s[0]=='line': trace.append('%s|L|%s'%(node,s[1]+''.join(' %d%s'%(vc[n],'True' if vc[n]>0 else 'False') for n in order)))
        elif s[0]=='opts':
            trace.append('%s|O|%s'%(node,','.join(l+('!' if c is False else '') for (l,c,b) in s[1])))
            c=choices[ci%len(choices)]%len(s[1]); ci+=1
            trace.append('choose %d'%c)
            k=list(s[1][c][2])+k
        elif s[0]=='if':
            for (c,b) in s[1]:
                if c: k=list(b)+k; break
            else:
                if s[2] is not None: k=list(s[2])+k
        elif s[0]=='jump':
            if node not in never: vc[node]+=1
            node=s[1]; k=list(prog[node])
        elif s[0]=='stop': trace.append('END'); return trace
cases=[]
for i in range(N):
    cnt[0]=0
    names=['n%d'%j for j in range(R.randint(1,3))]
    NAMES=names
    prog={n:gen_block(0,names) for n in names}
    never=set(n for n in names if R.random()<0.3)
    unit=R.choice(['\t',' ','  ','    ','        '])
    text=''
    for n in names:
        lines=[]; pr(prog[n],0,unit,lines,False)
        hdr='title: %s\n'%n+('tracking: never\n' if n in never else ('tracking: always\n' if R.random()<0.3 else ''))
        text+=hdr+'---\n%s\n===\n'%('\n'.join(lines)) if lines else hdr+'---\n===\n'
    choices=[R.randint(0,5) for _ in range(8)]
    cases.append({'text':text,'choices':choices,'trace':run(prog,names,choices,never)})
json.dump(cases, open('/tmp/probe/p10/cases.json','w'))
print(len(cases))
