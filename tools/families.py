"""Per-family plug-ins for check.py: projection, oracle, features, shrinking; and the property table."""
import sexp
from sexp import tag

FAMILIES = {}
PROPERTIES = {}


def project(fam, line):
    """What is compared between model and implementation (a string)."""
    f = FAMILIES[fam].get("project")
    return f(line) if f else line


def matches_signature(k, exp_line, obs_line):
    sig = k.get("signature")
    return sig is None or sig in obs_line


def in_known_class(k, fam, case, exp_line, obs_line):
    f = FAMILIES.get(k.get("family"), {}).get("known_class")
    if k.get("family") != fam or f is None:
        return False
    return f(k, case, exp_line, obs_line)


def drop_each(lst, lo=0):
    for i in range(lo, len(lst)):
        yield lst[:i] + lst[i + 1:]


# ------------------------------------------------------------------ queue / stack (C20)
def queue_oracle(case, obs, exp):
    l = []
    want = []
    for op in case[1:]:
        t = tag(op)
        if t == "enq":
            l.append(op[1]); want.append(["n"])
        elif t == "deq":
            want.append(["v", l.pop(0)] if l else ["panic"])
        elif t == "peek":
            want.append(["v", l[0]] if l else ["panic"])
        elif t == "size":
            want.append(["size", len(l)])
    got = [list(map(lambda x: x if isinstance(x, int) else str(x), r)) for r in obs[1:]]
    if got != want:
        i = next((i for i, (a, b) in enumerate(zip(got, want)) if a != b), min(len(got), len(want)))
        return "violation", "operation %d: a FIFO list gives %s, the queue gave %s" % (
            i, want[i] if i < len(want) else None, got[i] if i < len(got) else None)
    return "ok", "FIFO behaviour"


def queue_features(case):
    # simulate the ring buffer bookkeeping to see growths and wrap-around
    cap, size, first, growths, wrapped_growth = 0, 0, 0, 0, 0
    for op in case[1:]:
        t = tag(op)
        if t == "enq":
            if cap == 0:
                cap = 8
            if size == cap:
                growths += 1
                if first != 0:
                    wrapped_growth += 1
                cap *= 2
                first = 0
            size += 1
        elif t == "deq" and size > 0:
            size -= 1
            first = (first + 1) % cap if size > 0 else 0
    labels = ["ops<=20" if len(case) <= 21 else "ops<=100" if len(case) <= 101 else "ops>100",
              "growths=%d" % min(growths, 3), "wrapped_growths=%d" % min(wrapped_growth, 3)]
    return sexp.dump(case), growths >= 1, labels


def stack_oracle(case, obs, exp):
    l = []
    want = []
    for op in case[1:]:
        t = tag(op)
        if t == "push":
            l.append(op[1]); want.append(["n"])
        elif t == "pushall":
            l.extend(op[1:]); want.append(["n"])
        elif t == "pop":
            want.append(["v", l.pop()] if l else ["panic"])
        elif t == "peek":
            want.append(["v", l[-1]] if l else ["panic"])
        elif t == "size":
            want.append(["size", len(l)])
        elif t == "clear":
            l = []; want.append(["n"])
    got = [list(map(lambda x: x if isinstance(x, int) else str(x), r)) for r in obs[1:]]
    if got != want:
        return "violation", "a LIFO list gives %s, the stack gave %s" % (want, got)
    return "ok", "LIFO behaviour"


def stack_features(case):
    kinds = {tag(op) for op in case[1:]}
    return sexp.dump(case), len(kinds) >= 3, ["kinds=%d" % len(kinds)]


FAMILIES["queue"] = {"oracle": queue_oracle, "features": queue_features,
                     "shrink": lambda c: [[c[0]] + r for r in drop_each(c[1:])]}
FAMILIES["stack"] = {"oracle": stack_oracle, "features": stack_features,
                     "shrink": lambda c: [[c[0]] + r for r in drop_each(c[1:])]}


# ------------------------------------------------------------------ indent (C20 / C08)
def mixed_indent(case):
    """Does some NEWLINE that is not followed by a blank/comment line mix tabs and spaces?"""
    for b in case[2]:
        if tag(b) == "nl" and b[2] == 0 and " " in b[1] and "\t" in b[1]:
            return True
    return False


def indent_oracle(case, obs, exp):
    if tag(obs) == "PANIC":
        if mixed_indent(case):
            return "ok", "panic on indentation mixing tabs and spaces (documented; an error at load time)"
        return "violation", "the lexer panicked on an input without mixed indentation"
    if tag(obs) != "toks":
        return "violation", "no token stream: %s" % sexp.dump(obs)[:200]
    toks = obs[1:]
    depth = 0
    for i, t in enumerate(toks):
        if t == 1:
            depth += 1
        elif t == 2:
            depth -= 1
            if depth < 0:
                return "violation", "DEDENT without a matching INDENT at token %d" % i
        elif t == -2:
            return "violation", "NextToken returned nil at token %d" % i
    if depth != 0:
        return "violation", "%d INDENT without DEDENT at the end of the stream" % depth
    if toks.count(-1) != 1 or toks[-1] != -1:
        return "violation", "the stream does not end with exactly one EOF"
    return "unknown", "stream is balanced and ends with one EOF, but differs from the model's stream"


def indent_features(case):
    nls = [b for b in case[2] if tag(b) == "nl"]
    widths = {len(b[1].replace("\r", "").replace("\n", "")) for b in nls if b[2] == 0}
    skipped = sum(1 for b in nls if b[2] == 1)
    labels = ["newlines<=3" if len(nls) <= 3 else "newlines>3", "skipped=%d" % min(skipped, 3),
              "widths=%d" % min(len(widths), 4), "mixed" if mixed_indent(case) else "clean",
              "crlf" if "\r\n" in case[3] else "lf", "tabs" if "\t" in case[3] else "notabs"]
    return case[3], len(widths) >= 2, labels


def indent_shrink(case):
    text = case[3]
    lines = text.split("\n")
    out = []
    for r in drop_each(lines):
        out.append([case[0], case[1], [], sexp.Sym("\n".join(r))])
    return out


FAMILIES["indent"] = {"oracle": indent_oracle, "features": indent_features, "shrink": indent_shrink,
                      "needs_norm": True}

# ------------------------------------------------------------------ properties
PROPERTIES["C20"] = {
    "families": [("queue", 500, 20000), ("stack", 200, 5000), ("indent", 800, 30000)],
    "rule": "queue/stack: random operation sequences in phases of different enqueue pressure "
            "(<=120 ops quick, <=400 thorough); distinct by the op sequence, non-trivial when the ring "
            "buffer grows at least once (growths / growths with a wrapped head are in the histograms). "
            "indent: random indented node texts (spaces/tabs/mixed, blank, whitespace-only and comment "
            "lines, CRLF); distinct by text, non-trivial when >= 2 different indentation widths occur.",
    "assumptions": ["the base token stream fed to the indentation model is the one the generated ANTLR lexer "
                    "produces (modelled, not verified)"],
}


# ------------------------------------------------------------------ runner families
def _obs_list(res):
    """res = (res (load ok) (obs...) (finals...) [notes]) -> list of observations, or a marker."""
    if tag(res) != "res" or len(res) < 3:
        return None
    return res[2]


def _strip_line(parts, keep_tags, keep_attrs):
    # parts = [text, tags, attrs]
    out = [parts[0]]
    if keep_tags:
        out.append(parts[1])
    if keep_attrs:
        out.append(parts[2])
    return out


def obs_view(o, keep_tags=False, keep_attrs=False, keep_disabled=True):
    t = tag(o)
    if t == "line":
        return ["line", o[1]] + _strip_line(o[2:5], keep_tags, keep_attrs)
    if t == "opts":
        return ["opts", o[1], [([x[0]] if keep_disabled else []) + _strip_line(x[1:4], keep_tags, keep_attrs) for x in o[2]]]
    return o


def runner_projection(view, with_log=False, with_slog=False, note_ast=True):
    def proj(line):
        res = sexp.parse(line)
        if tag(res) != "res":
            return line
        if len(res) < 3:
            return sexp.dump(res[:2])
        out = [[view(o) for o in res[2]]]
        if with_log or with_slog:
            for r in res[3]:
                out.append([r[1] if with_log else [], r[2] if with_slog else []])
        if note_ast and len(res) > 4:
            out.append(["ast-mismatch"])
        return sexp.dump(out)
    return proj


def first_diff(a, b):
    for i, (x, y) in enumerate(zip(a, b)):
        if x != y:
            return i
    return min(len(a), len(b)) if len(a) != len(b) else None


def runner_oracle(fam_name, what):
    """The model provably follows the specification (Props/<id>.v), and the specification fixes the
    projected observables uniquely; an implementation whose projected observables differ therefore
    violates the property on this input."""
    def oracle(case, obs, exp):
        pe = sexp.parse(project(fam_name, sexp.dump(exp)))
        po = sexp.parse(project(fam_name, sexp.dump(obs)))
        if pe == po:
            return "ok", "observables agree with the specification"
        if len(obs) > 4 and tag(obs[4]) == "ast-mismatch":
            return "violation", "the implementation parses the printed script into a different dialogue than the one printed"
        if isinstance(pe, list) and isinstance(po, list) and pe and po and isinstance(pe[0], list) and isinstance(po[0], list):
            i = first_diff(pe[0], po[0])
            if i is not None:
                ops = [o for o in case[10][1:]]
                return "violation", "%s: operation %d %s: specification gives %s, implementation gave %s" % (
                    what, i, sexp.dump(ops[i]) if i < len(ops) else "?",
                    sexp.dump(pe[0][i]) if i < len(pe[0]) else "nothing",
                    sexp.dump(po[0][i]) if i < len(po[0]) else "nothing")
            return "violation", "%s: logs differ: specification %s, implementation %s" % (what, sexp.dump(pe[1:])[:300], sexp.dump(po[1:])[:300])
        return "violation", "%s: specification gives %s, implementation gave %s" % (what, sexp.dump(pe)[:200], sexp.dump(po)[:200])
    return oracle


def ast_depth(stmts):
    d = 0
    for s in stmts:
        t = tag(s)
        if t == "opts":
            d = max(d, 1 + max([ast_depth(o[2]) for o in s[1:]] + [0]))
        elif t == "if":
            d = max(d, 1 + max([ast_depth(c[2]) for c in s[1:]] + [0]))
    return d


def count_stmts(stmts, kinds):
    for s in stmts:
        t = tag(s)
        kinds[t] = kinds.get(t, 0) + 1
        if t == "opts":
            for o in s[1:]:
                count_stmts(o[2], kinds)
        elif t == "if":
            for c in s[1:]:
                count_stmts(c[2], kinds)
    return kinds


def runner_features(min_depth=2, min_ops=4, need=None):
    def feat(case):
        nodes = case[7][1]
        ops = case[10][1:]
        depth = max([ast_depth(n[2]) for n in nodes] + [0])
        kinds = {}
        for n in nodes:
            count_stmts(n[2], kinds)
        nnext = sum(1 for o in ops if tag(o) == "next")
        labels = ["nodes=%d" % len(nodes), "depth=%d" % min(depth, 5), "next_ops<=5" if nnext <= 5 else "next_ops<=15" if nnext <= 15 else "next_ops>15",
                  "readers=%d" % (len(case[8]) - 1), "indent=%r" % case[9][1], "crlf" if case[9][2] == "\r\n" else "lf",
                  "blank%%=%d" % case[9][3], "host-storer" if case[2][1] else "default-storer"]
        labels += ["has:" + k for k in sorted(kinds) if k in ("jump", "opts", "if", "cmd", "call", "set", "declare")]
        for o in ops:
            if tag(o) != "next":
                labels.append("op:" + tag(o))
        nontrivial = depth >= min_depth and nnext >= min_ops and (need is None or all(kinds.get(k, 0) > 0 for k in need))
        return (sexp.dump(nodes), sexp.dump(ops)), nontrivial, sorted(set(labels))
    return feat


def _del_stmt_variants(stmts):
    """All variants of a statement list with one statement (at any depth) removed."""
    for i in range(len(stmts)):
        yield stmts[:i] + stmts[i + 1:]
    for i, s in enumerate(stmts):
        t = tag(s)
        if t == "opts":
            for j in range(1, len(s)):
                o = s[j]
                for v in _del_stmt_variants(o[2]):
                    yield stmts[:i] + [s[:j] + [[o[0], o[1], v]] + s[j + 1:]] + stmts[i + 1:]
                if len(s) > 2:
                    yield stmts[:i] + [s[:j] + s[j + 1:]] + stmts[i + 1:]
        elif t == "if":
            for j in range(1, len(s)):
                c = s[j]
                for v in _del_stmt_variants(c[2]):
                    yield stmts[:i] + [s[:j] + [[c[0], c[1], v]] + s[j + 1:]] + stmts[i + 1:]
                if len(s) > 2:
                    yield stmts[:i] + [s[:j] + s[j + 1:]] + stmts[i + 1:]


def runner_shrink(case):
    out = []
    ops = case[10][1:]
    # shorter operation sequences first
    for n in (len(ops) // 2, len(ops) - 1):
        if 0 < n < len(ops):
            out.append(case[:10] + [[case[10][0]] + ops[:n]])
    for i in range(len(ops)):
        if tag(ops[i]) != "next":
            out.append(case[:10] + [[case[10][0]] + ops[:i] + ops[i + 1:]])
    # plain layout, one reader, one runner
    plain = [sexp.Sym("layout"), sexp.Sym("    "), sexp.Sym("\n"), 0, 0, 0, 0, 0, 1]
    if case[9] != plain:
        out.append(case[:9] + [plain] + case[10:])
    if len(case[8]) > 2:
        out.append(case[:8] + [[case[8][0], len(case[7][1])]] + case[9:])
    nodes = case[7][1]
    for i in range(1, len(nodes)):
        out.append(case[:7] + [[case[7][0], nodes[:i] + nodes[i + 1:]]] + [[case[8][0], len(nodes) - 1]] + case[9:])
    for i, n in enumerate(nodes):
        for v in _del_stmt_variants(n[2]):
            out.append(case[:7] + [[case[7][0], nodes[:i] + [[n[0], n[1], v]] + nodes[i + 1:]]] + case[8:])
            if len(out) > 200:
                return out
    return out


def flow_view(o):
    return obs_view(o, keep_tags=False, keep_attrs=False, keep_disabled=False)


def runner_shrink_ok(orig_obs, cand_obs):
    # do not wander from a behavioural disagreement into a printing artefact of a shrunk AST
    return ("ast-mismatch" in cand_obs) == ("ast-mismatch" in orig_obs) and "CRASH" not in cand_obs


FAMILIES["flow"] = {"project": runner_projection(flow_view), "features": runner_features(2, 4),
                    "shrink": runner_shrink, "oracle": None, "shrink_ok": runner_shrink_ok}
FAMILIES["flow"]["oracle"] = runner_oracle("flow", "dialogue flow")


def end_projection(line):
    """C12: what happens after the first reported end: outcomes, host log and storer log deltas."""
    res = sexp.parse(line)
    if tag(res) != "res" or len(res) < 3:
        return sexp.dump(res[:2]) if isinstance(res, list) else line
    obs = [flow_view(o) for o in res[2]]
    return sexp.dump([obs, [[r[1], r[2]] for r in res[3]]])


def end_oracle(case, obs, exp):
    o = _obs_list(obs)
    if o is None:
        return "unknown", "the script did not load"
    ops = case[10][1:]
    seen_end = False
    for i, (op, ob) in enumerate(zip(ops, o)):
        if tag(op) != "next":
            continue
        if seen_end and tag(ob) != "end":
            return "violation", "operation %d %s after the end of the dialogue returned %s" % (i, sexp.dump(op), sexp.dump(ob)[:200])
        if tag(ob) == "end":
            seen_end = True
    v, d = runner_oracle("endcalls", "end of dialogue")(case, obs, exp)
    return v, d


FAMILIES["endcalls"] = {"project": end_projection, "features": runner_features(1, 3), "shrink": runner_shrink,
                        "oracle": end_oracle, "shrink_ok": runner_shrink_ok}

PROPERTIES["C01"] = {
    "families": [("flow", 260, 6000), ("indent", 300, 8000)],
    "rule": "random dialogues (1-4 nodes, options/if nested to depth 4, jumps by name and by expression, stop, "
            "set/declare/call/commands, duplicate titles, 1-3 readers) printed under a random layout, driven along a "
            "random valid choice path (junk arguments whenever no option group is waiting); distinct by (AST, ops); "
            "non-trivial when the AST nests options/if to depth >= 2 and the path has >= 4 Next calls.",
    "assumptions": ["printed text is parsed by the implementation into the generated AST (checked on every case through "
                    "the VerifDumpDialogue hook: an AST mismatch is reported as a violation)"],
}
PROPERTIES["C12"] = {
    "families": [("endcalls", 260, 6000)],
    "rule": "dialogues biased to end early (stop inside nested option/if bodies with statements after it, natural ends "
            "after option groups), followed by 3-6 further Next calls with arguments from {0,1,7,-1,2^40}; distinct by "
            "(AST, ops); non-trivial when nesting depth >= 1 and >= 3 Next calls.",
    "assumptions": [],
}


# ------------------------------------------------------------------ more runner families
def class_view(o):
    t = tag(o)
    return [t] if t in ("line", "opts", "end", "err", "wait", "panic") else o


def cmd_log_projection(line):
    res = sexp.parse(line)
    if tag(res) != "res" or len(res) < 3:
        return sexp.dump(res[:2]) if isinstance(res, list) else line
    obs = [flow_view(o) for o in res[2]]
    logs = [[e for e in r[1] if tag(e) == "cmd"] for r in res[3]]
    return sexp.dump([obs, logs] + ([["ast-mismatch"]] if len(res) > 4 else []))


def no_panic_oracle(fam_name):
    base = runner_oracle(fam_name, "fault handling")
    def oracle(case, obs, exp):
        if tag(obs) in ("CRASH", "HARNESS-PANIC"):
            return "violation", "the process running the dialogue died (unrecovered panic or fatal error)"
        o = _obs_list(obs)
        if o is not None:
            for i, ob in enumerate(o):
                if tag(ob) == "panic":
                    e = _obs_list(exp)
                    if e is None or i >= len(e) or tag(e[i]) != "panic":
                        return "violation", "operation %d panicked: %s" % (i, sexp.dump(case[10][1 + i]))
        return base(case, obs, exp)
    return oracle


def _mk(name, proj, feat, oracle=None):
    FAMILIES[name] = {"project": proj, "features": feat, "shrink": runner_shrink, "shrink_ok": runner_shrink_ok,
                      "oracle": oracle}
    if oracle is None:
        FAMILIES[name]["oracle"] = runner_oracle(name, name)


_mk("vars", runner_projection(flow_view, with_slog=True), runner_features(0, 3, need=["set"]))
_mk("faults", runner_projection(class_view), runner_features(1, 4), no_panic_oracle("faults"))
_mk("snap", runner_projection(flow_view, with_slog=True), runner_features(1, 4))
_mk("cmds", cmd_log_projection, runner_features(0, 4, need=["cmd"]))
_mk("convcmds", cmd_log_projection, runner_features(0, 4, need=["cmd"]))
FAMILIES["cmds"]["retry_transient"] = True       # <<wait 0.03>> on real timers inside scheduled scripts
FAMILIES["convcmds"]["retry_transient"] = True
_mk("visits", runner_projection(flow_view), runner_features(0, 5, need=["jump"]))

PROPERTIES["C03"] = {
    "families": [("vars", 300, 6000)],
    "rule": "dialogues dominated by set/declare with all six operators over every pair of (stored type, assigned type), "
            "first assignments and compound assignments to unknown names, host writes of any type between steps, on a "
            "recording host Storer; compared: every Set*/Clear call the storer received, GetValues() at random points, "
            "the rendered {$v} values and error positions. Non-trivial: contains set statements and >= 3 Next calls.",
    "assumptions": [],
}
PROPERTIES["C06"] = {
    "families": [("faults", 400, 8000), ("bridge", 800, 30000), ("snap", 150, 3000)],
    "rule": "valid scripts seeded with every fault class (ill-typed operands, unknown variables/functions/nodes/commands, "
            "null, value-less functions, failing functions, dice/random_range/round_places out of domain incl. 0, "
            "negatives, 1e30, NaN) at random depths; only the outcome class of each Next is compared (element/end/"
            "error/waiting/panic). Non-trivial: nesting depth >= 1 and >= 4 Next calls. Scripts on which the model "
            "runs out of fuel (non-yielding jump cycles, known finding D7) are not executed. bridge: host functions and "
            "commands of every accepted signature (error results by value - structs and value kinds with an Error method - "
            "included) called with fitting and unfitting arguments: a fault of the call is an error, never a panic. snap: "
            "snapshots written by the host (maps it has nothing to put in left nil) restored into runners in any state, "
            "then driven on.",
    "assumptions": ["choices are in range whenever an option group is waiting (adaptive generation)"],
}
PROPERTIES["C07"] = {
    "families": [("snap", 300, 6000), ("convcmds", 120, 3000)],
    "rule": "two runners of one script; random interleaving of Next, host writes, Snapshot into slots, re-reading OLD "
            "snapshot objects after further steps (exposes shared maps), RestoreAt of any slot into either runner in "
            "whatever state it is (mid-node, waiting for a choice, waiting for a command, ended), GetValues; compared: "
            "traces, snapshot contents at every read, storer call logs. Non-trivial: depth >= 1 and >= 4 Next calls. "
            "convcmds: commands registered through ConvertAndAddCommand (void / error / channel results), snapshots and "
            "restores while such a command is pending - the abandoned call is released afterwards and must not be taken for "
            "the completion of a later call - and re-execution of the same command by the restored runner.",
    "assumptions": ["scripts of this family draw no random numbers (neither RNG nor host state is part of a snapshot)"],
}
# ------------------------------------------------------------------ waits (C10, real timers)
def _f64_exact(bits):
    """the exact rational value of a non-negative finite binary64 bit pattern"""
    from fractions import Fraction
    e, m = (bits >> 52) & 0x7FF, bits & ((1 << 52) - 1)
    if e == 0:
        return Fraction(m, 1 << 1074)
    return Fraction((1 << 52) | m) * (Fraction(2) ** (e - 1075))


def waits_projection(line):
    r = sexp.parse(line)
    return sexp.dump(r[:3]) if tag(r) == "waited" else line


def waits_oracle(case, obs, exp):
    if tag(obs) != "waited":
        return "violation", "a script consisting of <<wait n>> and a line was refused or the harness died"
    if str(obs[1]) != "line" or obs[2] != 1:
        return "violation", "<<wait n>> followed by a line: expected 'waiting' and then the line, got %s" % sexp.dump(obs[:3])
    n = _f64_exact(case[1])
    # time.Duration(n * 1e9): the product is rounded to binary64 (relative error <= 2^-53) and truncated
    from fractions import Fraction
    floor_ns = n * 1000000000 * (1 - Fraction(1, 1 << 52)) - 1
    if obs[3] < floor_ns:
        return "violation", ("<<wait %s>> reported completion %d ns after the Next call that started it, earlier than %s s"
                             % (float(n), obs[3], float(n)))
    if tag(exp) == "waited" and obs[3] < exp[3]:
        return "violation", "<<wait %s>> completed after %d ns, the model sleeps %d ns" % (float(n), obs[3], exp[3])
    return "ok", "completion not earlier than n seconds"


def waits_features(case):
    n = float(_f64_exact(case[1]))
    labels = ["sub-millisecond" if 0 < n < 0.001 else "zero" if n == 0 else "fractional-ms" if (n * 1000) % 1 else "whole-ms",
              ["literal", "inline-expression", "variable"][case[2]]]
    return (case[1], case[2]), n > 0, labels


FAMILIES["waits"] = {"oracle": waits_oracle, "features": waits_features, "project": waits_projection,
                     "shrink": lambda c: [], "always_oracle": True, "retry_transient": True}

PROPERTIES["C10"] = {
    "families": [("cmds", 200, 4000), ("convcmds", 200, 4000), ("waits", 160, 3000)],
    "rule": "waits: <<wait n>> for n below a millisecond, not a whole number of milliseconds, whole milliseconds, zero "
            "(literal, inline expression, variable), on real timers: the clock is read before the Next call that starts the "
            "command and after the first Next call that no longer answers 'waiting' (polled without pause), so a measured "
            "time below n seconds is a completion reported too early whatever the load; also compared with the model's "
            "time.Duration(n * 1e9). cmds: scripts dense in host commands (raw handlers whose channel the harness owns) with a completion schedule per "
            "invocation: ready on return, or after 1-3 further polls, with nil or an error; <<wait 0.03/0.05>>; "
            "unregistered commands; stop. convcmds: the same with the three shapes ConvertAndAddCommand accepts - "
            "func(float64), func(float64) error (both run on a goroutine of the bridge and stay blocked until the schedule "
            "releases them) and func(float64) <-chan error - plus snapshots and restores taken while a command is pending "
            "(the abandoned handler is released) and re-execution of the same command afterwards. Compared: Next outcomes "
            "and the handler invocation log (name, arguments). Non-trivial: contains commands and >= 4 Next calls.",
    "assumptions": ["the harness fills a handler's channel / releases a blocked handler exactly between two Next calls (the schedule "
                    "is imposed, not raced); for a goroutine-backed handler that is due, Next is polled until the bridge has "
                    "reported (at most 2 s)"],
}
PROPERTIES["C11"] = {
    "families": [("visits", 260, 5000)],
    "rule": "jump-heavy graphs of 1-5 nodes (self-loops, cycles, jumps out of nested bodies, jumps by expression, unknown "
            "targets, duplicate titles) with random tracking: never/always headers; every line renders "
            "visited_count/visited for every node and a non-node; snapshots are taken, read and restored along the way. "
            "Non-trivial: contains jumps and >= 5 Next calls.",
    "assumptions": [],
}


# ------------------------------------------------------------------ markup families (C13, C14, C15)
def _markup_input(case):
    x = case[1] if tag(case) == "markup" else case[2]
    return x if isinstance(x, str) else bytes(x).decode("utf8", "replace")


def markup_safety(obs):
    """C15 on the implementation's result alone."""
    t = tag(obs)
    if t in ("panic", "CRASH", "HARNESS-PANIC"):
        return "violation", "parsing panicked"
    if t == "ok":
        text, attrs, tfa = obs[1], obs[2], obs[3]
        for a, x in zip(attrs, tfa):
            if a[1] < 0 or a[2] < 0 or a[1] + a[2] > len(text):
                return "violation", "attribute %s has the range %d+%d outside the text of %d characters" % (a[0], a[1], a[2], len(text))
            if tag(x) == "panic":
                return "violation", "TextForAttribute panicked for attribute %s" % a[0]
            if x[1] != text[a[1]:a[1] + a[2]]:
                return "violation", "TextForAttribute(%s) = %r, the range holds %r" % (a[0], str(x[1]), text[a[1]:a[1] + a[2]])
    return None


def markupdoc_oracle(case, obs, exp):
    s = markup_safety(obs)
    if s:
        return s
    if len(case) > 2 and tag(case[2]) == "expect":
        want_text, want_attrs = case[2][1], case[2][2]
        if tag(obs) != "ok":
            return "violation", "a well-formed document was rejected"
        if obs[1] != want_text:
            return "violation", "plain text %r, the document's text is %r" % (str(obs[1]), str(want_text))
        got = sorted((str(a[0]), a[1], a[2], str(x[1])) for a, x in zip(obs[2], obs[3]))
        want = sorted((str(a[0]), a[1], a[2], str(a[3])) for a in want_attrs)
        if got != want:
            return "violation", "attributes %s, the document's markers enclose %s" % (got, want)
        return "ok", "matches the document's meaning"
    return "unknown", "result is safe but differs from the model's"


def markupfuzz_oracle(case, obs, exp):
    s = markup_safety(obs)
    return s if s else ("unknown", "result is safe but differs from the model's")


def markuphist_oracle(case, obs, exp):
    if tag(obs) != "hist":
        return "violation", "parsing panicked or died"
    for part in obs[1:]:
        s = markup_safety(part)
        if s:
            return s
    if obs[1] != obs[2]:
        return "violation", "the same line parsed on a parser with history gives %s, on a fresh parser %s" % (
            sexp.dump(obs[1])[:300], sexp.dump(obs[2])[:300])
    return "unknown", "reused and fresh parser agree with each other but differ from the model"


def markup_features(case):
    src = _markup_input(case)
    nm = src.count("[")
    labels = ["markers=%d" % min(nm, 6), "multibyte" if any(ord(c) > 127 for c in src) else "ascii",
              "expectation" if (len(case) > 2 and tag(case[2]) == "expect") else "no-expectation",
              "escape" if "\\" in src else "no-escape", "colon" if ":" in src else "no-colon",
              "edge-space" if src != src.strip() else "no-edge-space",
              "replacement" if any(k in src for k in ("select", "plural", "ordinal", "nomarkup")) else "no-replacement",
              "bytes" if not isinstance(case[1] if tag(case) == "markup" else case[2], str) else "string"]
    return sexp.dump(case[1:]), nm >= 2, labels


def markup_shrink(case):
    idx = 1 if tag(case) == "markup" else 2
    x = case[idx]
    out = []
    n = len(x)
    for size in (max(1, n // 4), 1):
        for i in range(0, n, size):
            y = x[:i] + x[i + size:]
            out.append(case[:idx] + [sexp.Sym(y) if isinstance(x, str) else y])     # drops the expectation
            if len(out) > 150:
                return out
    if tag(case) == "markuphist":
        for r in drop_each(case[1]):
            out.append([case[0], r, case[2]])
    return out


FAMILIES["markupdoc"] = {"oracle": markupdoc_oracle, "features": markup_features, "shrink": markup_shrink}
FAMILIES["markupfuzz"] = {"oracle": markupfuzz_oracle, "features": markup_features, "shrink": markup_shrink}
FAMILIES["markuphist"] = {"oracle": markuphist_oracle, "features": markup_features, "shrink": markup_shrink}
FAMILIES["unicode"] = {"oracle": lambda c, o, e: ("unknown", "the generated Unicode tables differ from the toolchain's (regenerate coq/Generated/UnicodeTables.v)"),
                       "features": lambda c: (sexp.dump(c), True, ["runes=%d" % (len(c) - 1)]),
                       "shrink": lambda c: [[c[0]] + r for r in drop_each(c[1:])][:50]}

PROPERTIES["C13"] = {
    "families": [("markupdoc", 2500, 100000), ("unicode", 20, 400)],
    "rule": "documents from a grammar: text chunks (ASCII, multi-byte incl. astral, whitespace), escaped brackets, "
            "open/close/close-all/self-closing markers with 0-3 properties of every value type and whitespace inside "
            "markers, nesting/overlap up to 4 open markers, repeated names, Name: prefixes, replacement markers in "
            "self-closing and closed-by-name form; one third are 'structured' documents whose plain text and enclosed "
            "ranges the generator knows by construction (independent oracle). Distinct by input; non-trivial: >= 2 markers.",
    "assumptions": ["unicode.IsLetter/IsDigit ranges generated from the toolchain (checked by the unicode family)"],
}
PROPERTIES["C14"] = {
    "families": [("markuphist", 1200, 40000)],
    "rule": "a history of 0-8 previously parsed lines (a third of them malformed or arbitrary bytes) on one LineParser "
            "value, then a line (sometimes one of the history again), then further lines (four fixed long lines with 1-5 far "
            "attributes and the history again) BEFORE the probe's result is read; the result on the reused parser is compared with "
            "the result on a fresh parser and with the model (a function of the line alone). Non-trivial: >= 2 markers.",
    "assumptions": [],
}
PROPERTIES["C15"] = {
    "families": [("markupfuzz", 3000, 200000), ("markuphist", 500, 20000)],
    "rule": "markuphist: results handed out earlier are range-checked and read (TextForAttribute) only after the same "
            "parser has parsed further lines. markupfuzz, three streams: arbitrary bytes (invalid UTF-8, NULs, marker punctuation), valid documents with 1-3 "
            "byte-level mutations, soups of marker fragments; every returned attribute is range-checked against the text "
            "in characters and TextForAttribute is called on it. Non-trivial: >= 2 '[' in the input.",
    "assumptions": [],
}


# ------------------------------------------------------------------ exprs (C02)
def expr_projection(line):
    res = sexp.parse(line)
    if tag(res) != "res" or len(res) < 3:
        return sexp.dump(res[:2]) if isinstance(res, list) else line
    obs = [class_view(o) for o in res[2]]
    return sexp.dump([obs, [r[1] for r in res[3]]] + ([["ast-mismatch"]] if len(res) > 4 else []))


def expr_depth(e):
    t = tag(e)
    if t in ("neg", "not"):
        return 1 + expr_depth(e[1])
    if t == "bin":
        return 1 + max(expr_depth(e[2]), expr_depth(e[3]))
    if t == "fn":
        return 1 + max([expr_depth(a) for a in e[2]] + [0])
    return 0


def expr_features(case):
    body = case[7][1][0][2]
    calls = [s for s in body if tag(s) == "call"]
    depth = max([expr_depth(c[2][1]) for c in calls if len(c[2]) > 1] + [0])
    ops = set()
    def walk(e):
        if tag(e) == "bin":
            ops.add(str(e[1])); walk(e[2]); walk(e[3])
        elif tag(e) in ("neg", "not"):
            ops.add(tag(e)); walk(e[1])
        elif tag(e) == "fn":
            for a in e[2]:
                walk(a)
    for c in calls:
        for a in c[2]:
            walk(a)
    labels = ["depth=%d" % min(depth, 7), "parens=%d" % case[9][5], "spelling=%d" % case[9][6]] + ["op:" + o for o in sorted(ops)]
    return sexp.dump(case[7]), depth >= 3, labels


_mk("exprs", expr_projection, expr_features)


# ------------------------------------------------------------------ exprparse (C02 grouping, C08 parentheses/spellings)
def exprparse_oracle(case, obs, exp):
    want = next((x[1] for x in case[3:] if tag(x) == "tree"), None)
    if want is not None:
        # written down from this tree by the rules the property states (generator's own table)
        if tag(obs) != "ast":
            return "violation", "an expression written from the tree %s was not accepted (%s)" % (sexp.dump(want)[:300], sexp.dump(obs)[:100])
        if sexp.dump(obs[1]) != sexp.dump(want):
            return "violation", "written from the tree %s, parsed as %s" % (sexp.dump(want)[:300], sexp.dump(obs[1])[:300])
        return "ok", "the tree was read back"
    return "unknown", "the implementation's parser and the parser model disagree on a token sequence"


def exprparse_features(case):
    toks = case[1]
    kinds = {tag(t) for t in toks}
    ops = {str(t[1]) for t in toks if tag(t) == "op"}
    labels = ["tokens<=5" if len(toks) <= 5 else "tokens<=15" if len(toks) <= 15 else "tokens>15",
              "with-tree" if any(tag(x) == "tree" for x in case[3:]) else "mutated-or-soup",
              "parens" if "lp" in kinds else "no-parens", "call" if "fn" in kinds else "no-call",
              "ops=%d" % min(len(ops), 5)]
    return (sexp.dump(toks), case[2]), len(toks) >= 5, labels


def exprparse_shrink(case):
    # dropping tokens drops the expectation: the shrunk case is judged model vs implementation
    return [[case[0], r, case[2]] for r in drop_each(case[1])][:60]


FAMILIES["exprparse"] = {"oracle": exprparse_oracle, "features": exprparse_features, "shrink": exprparse_shrink,
                         "always_oracle": True}

PROPERTIES["C02"] = {
    "families": [("exprs", 260, 8000), ("exprparse", 3000, 100000)],
    "rule": "exprparse: token sequences of the expression language (<= 40 tokens): two thirds written down from random "
            "untyped trees by the precedence rules the property states, with required and random redundant parentheses "
            "and random operator spellings - the implementation's parser + listener must give the tree back, and so must "
            "the parser model; one third mutated sequences and token soups, on which accept/reject and grouping must agree "
            "with the parser model (Syntax/ExprParser.v over the table extracted from the Go source). exprs: 3-8 expressions per case, typed trees of depth 3-5 and flat chains of mixed-precedence operators associated "
            "at random (printed with minimal, redundant or random extra parentheses and symbol/word/random operator "
            "spellings), over literals, variables, built-ins and the logging probe p; 4% of sub-expressions ill-typed "
            "or faulty. Each value reaches p(\"r<i>\", value) with its type; compared: error positions and the complete "
            "probe log (order and count of calls, typed values as bit patterns). The implementation's parse of the "
            "printed text must give back the generated tree. Non-trivial: expression depth >= 3.",
    "assumptions": [],
}


# ------------------------------------------------------------------ random (C09)
def random_oracle(case, obs, exp):
    if tag(obs) == "differ":
        return "violation", "the same script, seed and choices gave different runs: %s vs %s vs (child process) %s" % (
            sexp.dump(obs[1])[:200], sexp.dump(obs[2])[:200], sexp.dump(obs[3])[:200])
    return runner_oracle("random", "seeded run")(case, obs, exp)


_mk("random", runner_projection(flow_view), runner_features(0, 3), random_oracle)
PROPERTIES["C09"] = {
    "families": [("random", 240, 4000)],
    "rule": "programs using dice, random and random_range in lines, conditions, assignments and jump targets; seeds over "
            "[0-9a-z]{1,14} (including seeds whose base-36 value wraps int64). The model is fed the first 64 raw values of "
            "an independent rand.NewSource(seed integer derived by the harness's own reading of the rule), so every "
            "random value is predicted exactly. Each case is executed twice in process with an unrelated seeded runner "
            "in between and once in a fresh child process; all executions must be identical and equal to the model's "
            "trace. Non-trivial: >= 3 Next calls.",
    "assumptions": ["math/rand's generator (rngSource) is an oracle: only Intn/Int31n/Int63n/Float64 over its raw stream are modelled"],
}


# ------------------------------------------------------------------ cmdargs (C17)
def cmdargs_known_class(k, case, exp_line, obs_line):
    """D20: a generic command whose name begins with else / endif / endenum is a syntax error."""
    if '"load" "err"' not in obs_line:
        return False
    for n in case[7][1]:
        for s in n[2]:
            if tag(s) == "rawcmd" and len(s) > 1 and tag(s[1]) == "t":
                w = s[1][1].lstrip(" \t")
                if w.startswith("else") or w.startswith("endif") or w.startswith("endenum"):
                    return True
    return False


def cmdargs_features(case):
    body = case[7][1][0][2]
    raws = [s for s in body if tag(s) == "rawcmd"]
    nargs = 0
    labels = set()
    for s in raws:
        txt = "".join(e[1] for e in s[1:] if tag(e) == "t")
        nargs += len(txt.split()) + sum(1 for e in s[1:] if tag(e) == "e")
        if "\t" in txt:
            labels.add("tab-separated")
        if any(tag(e) == "e" for e in s[1:]):
            labels.add("inline-expression")
        name = txt.split()[0] if txt.split() else ""
        for kw in ("if", "set", "jump", "call", "declare", "local", "enum", "case"):
            if name.startswith(kw) and name != kw:
                labels.add("keyword-prefixed")
        if any(ord(c) > 127 for c in txt):
            labels.add("multibyte")
    labels.add("args=%d" % min(nargs, 12))
    return sexp.dump(case[7]), nargs >= 4, sorted(labels)


_mk("cmdargs", cmd_log_projection, cmdargs_features)
FAMILIES["cmdargs"]["known_class"] = cmdargs_known_class
PROPERTIES["C17"] = {
    "families": [("cmdargs", 300, 10000)],
    "rule": "2-6 generic commands per case written as raw text: names incl. keyword-prefixed (iffy, settings, jumpy, "
            "caller, declared, localise, enumerate, cases) and multi-byte ones, stop, an unregistered name; words from "
            "mixed alphabets (decimal literals, negatives, true/false and look-alikes, inf, NaN, 1e3, .5, 5., +5, 0x10, "
            "multi-byte, punctuation), separated by blanks and tabs, inline expressions of every type next to words. "
            "Compared: Next outcomes and the handler log (name, typed arguments). Non-trivial: >= 4 arguments.",
    "assumptions": [],
}


# ------------------------------------------------------------------ builtins (C19), fmt, parse
import struct
from fractions import Fraction
import math


def _f(bits):
    return struct.unpack("<d", struct.pack("<Q", bits & 0xFFFFFFFFFFFFFFFF))[0]


def _num(v):
    return _f(v[1]) if tag(v) == "num" else None


def d23_class(x, n, y):
    """round_places result outside the strict half unit but inside the envelope proved for the
    binary64 evaluation round(x*10^n)/10^n."""
    X, Y = Fraction(x), Fraction(y)
    err = abs(Y - X)
    half = Fraction(1, 2) / Fraction(10) ** n
    return err > half and err <= half + abs(X) / Fraction(2) ** 51


def builtin_oracle(case, obs, exp):
    name, args = str(case[1]), case[2]
    if tag(obs) == "panic" or tag(obs) in ("CRASH", "HARNESS-PANIC"):
        return "violation", "the built-in panicked"
    xs = [_num(a) for a in args]
    if name in ("floor", "ceil", "round", "inc", "dec", "decimal", "integer") and len(args) == 1 and xs[0] is not None:
        x = xs[0]
        if math.isfinite(x) and abs(x) < 2.0 ** 52:
            if tag(obs) != "val" or tag(obs[1]) != "num":
                return "violation", "%s(%r) did not return a number" % (name, x)
            y = _f(obs[1][1])
            if not math.isfinite(y):
                return "violation", "%s(%r) = %r" % (name, x, y)
            X, Y = Fraction(x), Fraction(y)
            ok = {
                "floor": Y.denominator == 1 and Y <= X < Y + 1,
                "ceil": Y.denominator == 1 and Y - 1 < X <= Y,
                "inc": Y.denominator == 1 and X < Y <= X + 1,
                "dec": Y.denominator == 1 and X - 1 <= Y < X,
                "integer": Y.denominator == 1 and abs(Y) <= abs(X) < abs(Y) + 1 and (Y == 0 or (Y > 0) == (X > 0)),
                "round": Y.denominator == 1 and abs(Y - X) <= Fraction(1, 2),
                "decimal": Y == X - math.trunc(X),
            }[name]
            if not ok:
                return "violation", "%s(%r) = %r breaks its contract" % (name, x, y)
    if name == "round_places" and len(args) == 2 and None not in xs:
        x, n = xs
        if math.isfinite(x) and abs(x) < 2.0 ** 52 and n in range(0, 9):
            if tag(obs) != "val" or tag(obs[1]) != "num":
                return "violation", "round_places(%r, %r) did not return a number" % (x, n)
            y = _f(obs[1][1])
            X, Y = Fraction(x), Fraction(y)
            half = Fraction(1, 2) / Fraction(10) ** int(n)
            if abs(Y - X) > half + abs(X) / Fraction(2) ** 51 + Fraction(1, 2 ** 1074):
                return "violation", "round_places(%r, %d) = %r is further than half a unit of that place (even allowing for the rounding of x*10^n)" % (x, int(n), y)
    if obs == exp:
        return "ok", "contract holds"
    return "unknown", "the result satisfies the checked contract but differs from the model's"


def builtin_known_class(k, case, exp_line, obs_line):
    return False


def builtin_features(case):
    name, args = str(case[1]), case[2]
    xs = [_num(a) for a in args]
    cls = []
    for x in xs:
        if x is None:
            cls.append("non-number")
        elif not math.isfinite(x):
            cls.append("non-finite")
        elif x == int(x):
            cls.append("integral")
        elif abs(x - round(x)) == 0.5:
            cls.append("half-way")
        elif abs(x) >= 2.0 ** 52:
            cls.append("big")
        else:
            cls.append("fractional")
    return sexp.dump(case), bool(xs) and xs[0] is not None and math.isfinite(xs[0]) and xs[0] != int(xs[0]), \
        ["fn:" + name] + ["arg:" + c for c in cls]


FAMILIES["builtins"] = {"oracle": builtin_oracle, "features": builtin_features, "shrink": lambda c: []}
FAMILIES["fmt"] = {"oracle": lambda c, o, e: ("unknown", "Go's formatting of this number differs from the model's"),
                   "features": lambda c: (c[1], True, []), "shrink": lambda c: []}
FAMILIES["parse"] = {"oracle": lambda c, o, e: ("unknown", "Go's parsing of this text differs from the model's"),
                     "features": lambda c: (str(c[1]), True, []), "shrink": lambda c: []}

PROPERTIES["C19"] = {
    "families": [("builtins", 6000, 300000), ("parse", 1500, 100000), ("fmt", 300, 20000)],
    "rule": "builtins: direct calls of the functions a runner offers to scripts (hook VerifCallBuiltin) on doubles from "
            "random bit patterns, integers around 2^k, half-way cases, neighbours of integers, signed zeros, subnormals, "
            "infinities/NaN (a fifth unbounded, the rest |x| < 2^52), n in 0..8 and out-of-range places, strings for "
            "number()/bool(), wrong arity/types; each result is judged by exact rational arithmetic against the "
            "contract and compared bit for bit with the model. parse/fmt validate the decimal<->binary64 models against "
            "strconv/fmt. Non-trivial: a finite non-integral first argument.",
    "assumptions": ["results are observed through the function table a fresh runner builds (same code path as a script call)"],
}


# ------------------------------------------------------------------ bridge (C16)
def bridge_oracle(case, obs, exp):
    if tag(obs) in ("CRASH", "HARNESS-PANIC"):
        return "violation", "the process died while registering or calling"
    if tag(obs) == "reg":
        if str(obs[1]) == "panic":
            return "violation", "registration panicked"
        if str(obs[1]) == "ok":
            for i, c in enumerate(obs[2]):
                if tag(c[0]) == "panic":
                    return "violation", "call %d of the accepted function panicked in the bridge" % i
                if tag(c[0]) == "hang":
                    return "violation", "call %d: the command's channel never delivered" % i
                if tag(c[0]) == "overlap-mismatch":
                    return "violation", ("calls %d and %d of the accepted command issued back to back: the handler received %s, "
                                         "one after the other it received %s") % (c[0][1], c[0][1] + 1, str(c[0][3]), str(c[0][2]))
            if tag(case[2]) in ("nil", "nonfunc", "nilfunc"):
                return "violation", "a %s value was accepted at registration" % tag(case[2])
    return "unknown", "no panic, but registration/conversion results differ from the model's"


def bridge_features(case):
    reg = case[2]
    labels = ["kind:" + str(case[1]), "reg:" + tag(reg)]
    nontrivial = False
    if tag(reg) in ("func", "nilfunc"):
        sig = reg[1]
        labels += ["params=%d" % len(sig[0]), "variadic" if sig[1] else "fixed", "results=%d" % len(sig[2])]
        if any(str(t).startswith("My") for t in sig[0] + sig[1]):
            labels.append("named-param")
        nontrivial = len(sig[0]) + len(sig[1]) >= 1
    return sexp.dump(case[1:3]) + sexp.dump(case[5]), nontrivial, labels


FAMILIES["bridge"] = {"oracle": bridge_oracle, "features": bridge_features,
                      "shrink": lambda c: [c[:5] + [r] for r in drop_each(c[5])]}
PROPERTIES["C16"] = {
    "families": [("bridge", 3000, 100000)],
    "rule": "Go function types built with reflect.FuncOf/MakeFunc: 0-3 parameters and an optional variadic tail over "
            "{int, int8..int64, float32, float64, bool, string, their named variants, uint, struct, slice, pointer, any, "
            "error}, 0-3 results over value kinds, error, a struct implementing error, channels of every direction/"
            "element/named-ness; plus nil, a non-function and a nil function value. Each accepted one is called with 2-6 "
            "argument lists (fitting ones, one short, one long, arbitrary). Compared: registration outcome, per call "
            "value/error/panic and the arguments the probe received (kind, named-ness, value); for commands, adjacent calls "
            "are also issued back to back without waiting and must deliver the same argument lists. Non-trivial: >= 1 parameter.",
    "assumptions": ["narrowing float->int conversions outside the target range follow amd64 (CVTTSD2SQ/CVTTSD2SL)"],
}


# ------------------------------------------------------------------ layout (C08)
def layout_oracle(case, obs, exp):
    if tag(obs) == "differ":
        return "violation", "the same program rendered under layout variant %d parses or runs differently: %s vs %s" % (
            obs[1], sexp.dump(obs[2])[:250], sexp.dump(obs[3])[:250])
    return runner_oracle("layout", "layout")(case, obs, exp)


def layout_known_class(k, case, exp_line, obs_line):
    return False


_mk("layout", runner_projection(flow_view), runner_features(1, 3), layout_oracle)
PROPERTIES["C08"] = {
    "families": [("layout", 90, 2500), ("indent", 600, 20000), ("exprparse", 1500, 50000), ("stmtparse", 400, 20000)],
    "rule": "layout: every generated program is printed under its own random layout and under 10 fixed renderings "
            "(indent unit 1 / 8 blanks / tabs, CRLF, a blank, whitespace-only or comment line at any indentation before "
            "EVERY line, maximal parentheses with word operators, random extra parentheses with symbol operators and "
            "extra blanks inside commands and trailing comments, mixed spellings, one node per reader); every rendering "
            "must parse to the generated dialogue and give the same trace. indent: the wrapper's token stream vs the "
            "model on arbitrary indentation. Non-trivial: nesting depth >= 1 and >= 3 Next calls.",
    "assumptions": [],
}


# ------------------------------------------------------------------ load (C05)
def load_oracle(case, obs, exp):
    if tag(obs) != "load":
        return "violation", "the process died while loading"
    outcome, usable, valid, why = str(obs[1]), str(obs[2]), obs[3], str(obs[4])
    if outcome == "panic":
        return "violation", "NewDialogueRunner panicked"
    if outcome == "hang":
        return "violation", "NewDialogueRunner did not return within 10 s"
    if usable == "panic":
        return "violation", "the runner that was returned panicked on its first Next calls"
    if outcome == "runner" and not valid:
        return "violation", "input that is not a valid script (%s) was loaded as a runner" % why
    if outcome == "err" and valid:
        return "violation", "a syntactically valid script with a valid seed was rejected"
    return "ok", "runner exactly for valid input"


def _reader_bytes(r):
    """a reader of a load case: a byte list, a string, ("rep" n part) or ("cat" part ...)"""
    if isinstance(r, str):
        return r.encode("utf8")
    if r and isinstance(r[0], str):
        if str(r[0]) == "rep":
            return _reader_bytes(r[2]) * int(r[1])
        if str(r[0]) == "cat":
            return b"".join(_reader_bytes(x) for x in r[1:])
    return bytes(r)


def load_features(case):
    if any(isinstance(r, list) and r and isinstance(r[0], str) for r in case[2]):
        return sexp.dump(case), True, ["readers=%d" % len(case[2]), "seed:lower", "size>1000000", "has-node", "utf8"]
    texts = [bytes(r).decode("utf8", "replace") for r in case[2]]
    seed = bytes(case[1]).decode("latin1") if isinstance(case[1], list) else str(case[1])
    labels = ["readers=%d" % len(texts), "seed:" + ("empty" if seed == "" else "lower" if all(c in "0123456789abcdefghijklmnopqrstuvwxyz" for c in seed) else "other"),
              "size<=100" if sum(map(len, texts)) <= 100 else "size<=1000" if sum(map(len, texts)) <= 1000 else "size>1000",
              "has-node" if any("---" in t for t in texts) else "no-node",
              "invalid-utf8" if any(bytes(r) != bytes(r).decode("utf8", "replace").encode("utf8") for r in case[2]) else "utf8"]
    return sexp.dump(case), any("---" in t for t in texts), labels


def load_shrink(case):
    out = []
    rs = case[2]
    if any(isinstance(r, list) and r and isinstance(r[0], str) for r in rs):
        return out      # inputs of more than a megabyte are reported as they are
    if len(rs) > 1:
        for r in drop_each(rs):
            out.append([case[0], case[1], r] + case[3:])
    for i, r in enumerate(rs):
        text = bytes(r)
        lines = text.split(b"\n")
        for j in range(len(lines)):
            t = b"\n".join(lines[:j] + lines[j + 1:])
            out.append([case[0], case[1], rs[:i] + [list(t)] + rs[i + 1:]] + case[3:])
            if len(out) > 120:
                return out
    return out


FAMILIES["load"] = {"oracle": load_oracle, "features": load_features, "shrink": load_shrink,
                    "project": lambda line: "-", "always_oracle": True}
PROPERTIES["C05"] = {
    "families": [("load", 500, 20000), ("indent", 400, 10000), ("stmtparse", 600, 30000)],
    "rule": "load: (a) printer output of generated programs split over 1-3 readers with 0-3 mutations (truncate, delete/"
            "duplicate/swap a line, unbalance >>, break endif, mix tabs and blanks, overwrite a byte, insert keyword soup, "
            "cut one script in two at an arbitrary offset), (b) keyword soups, random bytes incl. invalid UTF-8, empty/"
            "blank/comment-only input; seeds over [0-9a-z]{1,14}, the empty seed, and seeds with other characters. The "
            "outcome (runner / error / panic / hang, and whether a returned runner survives 4 Next calls) is judged "
            "against an independent run of the generated lexer and parser with error listeners of its own (hook "
            "VerifSyntaxCheck). Non-trivial: the input contains a node body marker. stmtparse: one reader's text - half of "
            "them printed programs as they are (the generator knows the dialogue: independent expectation), the rest with "
            "token-level mutations, keyword soups, scripts cut at an arbitrary offset - together with the tokens the "
            "implementation's lexer hands to the parser for it; the statement parser model (Syntax/StmtParser.v over the token "
            "table extracted from the Go source) decides accepted / refused and builds the dialogue from the tokens, "
            "tree.FromReader does the same from the text; both must agree, and with the independent ANTLR run.",
    "assumptions": ["'syntactically valid' = the generated ANTLR lexer/parser report no error, consume the whole input and find >= 1 node per reader"],
}


# ------------------------------------------------------------------ stmtparse (C05, C08, C01, C17: generated parser + listener)
def stmtparse_projection(line):
    res = sexp.parse(line)
    if isinstance(res, list) and res and isinstance(res[-1], list) and tag(res[-1]) == "syntax":
        res = res[:-1]
    return sexp.dump(res)


def stmtparse_oracle(case, obs, exp):
    if tag(obs) not in ("ok", "err"):
        return "violation", "parsing panicked or died: %s" % sexp.dump(obs)[:200]
    want = next((x[1] for x in case[3:] if tag(x) == "expect"), None)
    if want is not None and "rawcmd" not in sexp.dump(want):
        # the text is the printed form of this dialogue (generator's own printer, random layout)
        if tag(obs) != "ok":
            return "violation", "a printed, syntactically valid program was refused"
        if sexp.dump(obs[1]) != sexp.dump(want):
            return "violation", "the printed program %s was read as %s" % (sexp.dump(want)[:300], sexp.dump(obs[1])[:300])
        return "ok", "the printed program was read back"
    syn = obs[-1] if isinstance(obs[-1], list) and tag(obs[-1]) == "syntax" else None
    if syn is not None:
        valid = syn[1] == 0 and syn[2] == 0 and syn[3] >= 1 and syn[4] == 0
        if tag(obs) == "ok" and not valid:
            return "violation", "input with syntax errors (independent ANTLR run: %s) was loaded" % sexp.dump(syn)
        if tag(obs) == "err" and valid and tag(exp) == "ok":
            return "violation", "a syntactically valid script (independent ANTLR run and parser model agree) was refused"
    return "unknown", "the implementation's parser + listener and the statement parser model disagree on this token stream"


def stmtparse_features(case):
    text = str(case[1])
    toks = case[2][2] if tag(case[2]) == "toks" else []
    kinds = {t[0] for t in toks}
    labels = ["tokens<=30" if len(toks) <= 30 else "tokens<=150" if len(toks) <= 150 else "tokens>150",
              "printed-with-expectation" if any(tag(x) == "expect" for x in case[3:]) else "mutated-or-plain",
              "lexer-panic" if tag(case[2]) == "lexer-panic" else ("lexer-errors" if case[2][1] else "lexer-clean"),
              "options" if 14 in kinds else "no-options", "indent" if 1 in kinds else "flat",
              "if" if 64 in kinds else "no-if", "command-text" if 80 in kinds else "no-command-text"]
    return text, len(toks) >= 20, labels


def stmtparse_shrink(case):
    text = str(case[1])
    lines = text.split("\n")
    out = []
    for j in range(len(lines)):
        t = "\n".join(lines[:j] + lines[j + 1:])
        out.append([case[0], sexp.Sym(t), ["lexer-panic"]])        # tokens are taken again by the harness (norm)
        if len(out) > 80:
            break
    return out


FAMILIES["stmtparse"] = {"oracle": stmtparse_oracle, "features": stmtparse_features, "shrink": stmtparse_shrink,
                         "project": stmtparse_projection, "always_oracle": True, "needs_norm": True}

# ------------------------------------------------------------------ concurrent (C18)
import os as _os
_RACE = _os.path.join(_os.path.dirname(_os.path.dirname(_os.path.abspath(__file__))), "harness", "bin", "verifharness-race")


def concurrent_projection(line):
    res = sexp.parse(line)
    if tag(res) != "all":
        return line
    proj = runner_projection(flow_view)
    return sexp.dump([sexp.parse(proj(sexp.dump(r))) if tag(r) == "res" else r for r in res[1:]])


def concurrent_oracle(case, obs, exp):
    if tag(obs) in ("CRASH", "HARNESS-PANIC"):
        return "violation", "the process died while runners were created and driven concurrently (a data race reported by the race detector ends the process)"
    if tag(obs) == "all":
        for i, r in enumerate(obs[1:]):
            if tag(r) == "panic":
                return "violation", "goroutine %d panicked" % i
            if tag(r) == "hammer-differs":
                return "violation", "a runner hammering the built-ins concurrently does not produce its solo trace: %s" % str(r[2])[:200]
            if tag(r) == "starved":
                return "violation", "a runner whose command returns at once never got past it while %d other runners had a command in flight: %s" % (r[1], str(r[2])[:200])
        pe = sexp.parse(concurrent_projection(sexp.dump(exp)))
        po = sexp.parse(concurrent_projection(sexp.dump(obs)))
        for i, (a, b) in enumerate(zip(pe, po)):
            if a != b:
                return "violation", "runner %d driven concurrently with %d others does not produce its solo trace" % (i, len(po) - 1)
    return "unknown", "no race, no panic, traces equal the solo traces"


def concurrent_features(case):
    k = len(case) - 1
    return sexp.dump([c[7] for c in case[1:]]), k >= 4, ["goroutines=%d" % k]


FAMILIES["concurrent"] = {"oracle": concurrent_oracle, "features": concurrent_features, "project": concurrent_projection,
                          "shrink": lambda c: [[c[0]] + r for r in drop_each(c[1:])] if len(c) > 3 else [],
                          "binary": _RACE, "env": {"GORACE": "halt_on_error=1", "VERIF_WORKERS": "2"}}
PROPERTIES["C18"] = {
    "families": [("concurrent", 14, 300)],
    "rule": "groups of 2, 4, 8 or 16 (thorough: up to 32) independent programs (flow generator with random built-ins); each "
            "goroutine parses its own script, creates its own runner and drives it, all released by one start barrier, "
            "in a binary built with the race detector (GORACE=halt_on_error=1: a reported race ends the process and is a "
            "violation); every goroutine's trace must equal the model's solo trace. Non-trivial: >= 4 goroutines.",
    "assumptions": ["the race detector only sees the interleavings that actually happened"],
}


# ------------------------------------------------------------------ textline / render (C04)
def textline_oracle(case, obs, exp):
    return "unknown", "the implementation's reading of this source line differs from the transcribed TextMode grammar"


def textline_known_class(k, case, exp_line, obs_line):
    return False


def textline_features(case):
    s = str(case[1])
    labels = ["escape" if "\\" in s else "no-escape", "tags" if "#" in s else "no-tags", "comment" if "//" in s else "no-comment",
              "multibyte" if any(ord(c) > 127 for c in s) else "ascii", "leading-blank" if s[:1] in (" ", "\t") else "no-leading-blank"]
    return s, len(s) >= 4, labels


FAMILIES["textline"] = {"oracle": textline_oracle, "features": textline_features,
                        "shrink": lambda c: [[c[0], sexp.Sym(str(c[1])[:i] + str(c[1])[i + 1:])] for i in range(len(str(c[1])))][:80]}


# ------------------------------------------------------------------ escapes (C04, literal text end to end)
def esc_tokens(case):
    return [str(t) for t in case[2]]


def esc_oracle(case, obs, exp):
    want_text, want_tags = str(case[3]), [str(t) for t in case[4]]
    if tag(obs) != "text":
        return "violation", "a literal %s whose text is %r (tokens %r) was not returned as a line: %s" % (
            "option" if case[1] == 1 else "line", want_text, esc_tokens(case), sexp.dump(obs)[:200])
    got_text, got_tags = str(obs[1]), [str(t) for t in obs[2]]
    if got_text != want_text:
        return "violation", "literal text with escapes resolved is %r, the runner returned %r (tokens %r)" % (
            want_text, got_text, esc_tokens(case))
    if got_tags != want_tags:
        return "violation", "tags %r expected, %r returned" % (want_tags, got_tags)
    return "ok", ""


def esc_known_class(k, case, exp_line, obs_line):
    toks = [t for t in esc_tokens(case) if t.strip(" ") != ""]
    obs = sexp.parse(obs_line)
    if k.get("id") == "D21":
        return bool(toks) and toks[0] in ("\\[", "\\]") and tag(obs) == "none"
    if k.get("id") == "D27":
        # exactly the text in which every escaped backslash that precedes an unescaped ']' is lost
        if tag(obs) != "text":
            return False
        out = []
        ts = esc_tokens(case)
        hit = False
        for i, t in enumerate(ts):
            if t.startswith(" #") or t.startswith("#") or t.startswith("  #") or "//" in t and not t.startswith("\\"):
                break
            if t == "\\\\" and i + 1 < len(ts) and ts[i + 1] == "]":
                hit = True
                continue
            out.append(t[1:] if len(t) == 2 and t[0] == "\\" else t)
        return hit and "".join(out).strip() == str(obs[1]) and [str(x) for x in obs[2]] == [str(x) for x in case[4]]
    return False


def esc_features(case):
    ts = esc_tokens(case)
    labels = ["option" if case[1] == 1 else "line",
              "escaped" if any(len(t) == 2 and t[0] == "\\" for t in ts) else "no-escape",
              "tags" if len(case[4]) else "no-tags",
              "multibyte" if any(ord(c) > 127 for t in ts for c in t) else "ascii",
              "escaped-backslash" if "\\\\" in ts else "no-escaped-backslash",
              "escaped-bracket" if ("\\[" in ts or "\\]" in ts) else "no-escaped-bracket"]
    return (case[1], tuple(ts)), len(ts) >= 3, labels


def esc_shrink(case):
    ts = list(case[2])
    out = []
    for i in range(len(ts)):
        rest = ts[:i] + ts[i + 1:]
        t = str(ts[i])
        if t.lstrip(" ").startswith("#") or "//" in t:
            if t.lstrip(" ").startswith("#"):
                continue
            out.append([case[0], case[1], rest, case[3], case[4]])
            continue
        m = t[1:] if len(t) == 2 and t[0] == "\\" else t
        # meaning without this token: recompute from the remaining tokens
        mean = "".join((str(x)[1:] if len(str(x)) == 2 and str(x)[0] == "\\" else str(x)) for x in rest
                       if not (str(x).lstrip(" ").startswith("#") or "//" in str(x)))
        if mean.strip():
            out.append([case[0], case[1], rest, sexp.Sym(mean.strip()), case[4]])
    return out


FAMILIES["escapes"] = {"oracle": esc_oracle, "features": esc_features, "shrink": esc_shrink,
                       "known_class": esc_known_class, "always_oracle": True}


def render_view(o):
    return obs_view(o, keep_tags=True, keep_attrs=False, keep_disabled=True)


_mk("render", runner_projection(render_view, with_log=True), runner_features(0, 3, need=["line"]))
PROPERTIES["C04"] = {
    "families": [("textline", 4000, 150000), ("escapes", 3000, 100000), ("render", 250, 4000), ("fmt", 150, 20000)],
    "rule": "textline: one source line (printable ASCII, punctuation, multi-byte and astral characters; every escapable "
            "character escaped or not at every position, unescapable escapes, leading blanks, 0-2 hashtags with odd "
            "spacing, trailing comments) in a node body; the implementation's parser must read it as the transcribed "
            "grammar does (literal text + tags, or not a plain line). escapes: one line or option written as tokens whose "
            "meaning is known by construction (ordinary characters, every escapable character with its backslash, '>' and "
            "'}' either way, single '<' and '/', ']' outside markers, escaped backslashes before brackets, hashtags, "
            "comments); the runner must return exactly the resolved, trimmed text and the tags; the model (TextMode "
            "transcription + markup phase) must predict the same. render: programs dominated by lines and option "
            "groups with inline expressions of every type and conditions; text, tags, Disabled and the host's call log (the order in which the texts and conditions of a group are evaluated) compared. fmt: display "
            "form of doubles. Non-trivial: source line of >= 4 characters / a line statement present.",
    "assumptions": [],
}
