"""Per-family plug-ins for check.py: projection, oracle, features, shrinking; and the property table."""
import sexp
from sexp import tag

FAMILIES = {}
PROPERTIES = {}


def project(fam, line):
    """What is compared between model and implementation (a string)."""
    f = FAMILIES[fam].get("project")
    return f(line) if f else line


def matches_signature(k, exp_line, obs_line):
    sig = k.get("signature")
    return sig is None or sig in obs_line


def in_known_class(k, fam, case, exp_line, obs_line):
    f = FAMILIES.get(k.get("family"), {}).get("known_class")
    if k.get("family") != fam or f is None:
        return False
    return f(k, case, exp_line, obs_line)


def drop_each(lst, lo=0):
    for i in range(lo, len(lst)):
        yield lst[:i] + lst[i + 1:]


# ------------------------------------------------------------------ queue / stack (C20)
def queue_oracle(case, obs, exp):
    l = []
    want = []
    for op in case[1:]:
        t = tag(op)
        if t == "enq":
            l.append(op[1]); want.append(["n"])
        elif t == "deq":
            want.append(["v", l.pop(0)] if l else ["panic"])
        elif t == "peek":
            want.append(["v", l[0]] if l else ["panic"])
        elif t == "size":
            want.append(["size", len(l)])
    got = [list(map(lambda x: x if isinstance(x, int) else str(x), r)) for r in obs[1:]]
    if got != want:
        i = next((i for i, (a, b) in enumerate(zip(got, want)) if a != b), min(len(got), len(want)))
        return "violation", "operation %d: a FIFO list gives %s, the queue gave %s" % (
            i, want[i] if i < len(want) else None, got[i] if i < len(got) else None)
    return "ok", "FIFO behaviour"


def queue_features(case):
    # simulate the ring buffer bookkeeping to see growths and wrap-around
    cap, size, first, growths, wrapped_growth = 0, 0, 0, 0, 0
    for op in case[1:]:
        t = tag(op)
        if t == "enq":
            if cap == 0:
                cap = 8
            if size == cap:
                growths += 1
                if first != 0:
                    wrapped_growth += 1
                cap *= 2
                first = 0
            size += 1
        elif t == "deq" and size > 0:
            size -= 1
            first = (first + 1) % cap if size > 0 else 0
    labels = ["ops<=20" if len(case) <= 21 else "ops<=100" if len(case) <= 101 else "ops>100",
              "growths=%d" % min(growths, 3), "wrapped_growths=%d" % min(wrapped_growth, 3)]
    return sexp.dump(case), growths >= 1, labels


def stack_oracle(case, obs, exp):
    l = []
    want = []
    for op in case[1:]:
        t = tag(op)
        if t == "push":
            l.append(op[1]); want.append(["n"])
        elif t == "pushall":
            l.extend(op[1:]); want.append(["n"])
        elif t == "pop":
            want.append(["v", l.pop()] if l else ["panic"])
        elif t == "peek":
            want.append(["v", l[-1]] if l else ["panic"])
        elif t == "size":
            want.append(["size", len(l)])
        elif t == "clear":
            l = []; want.append(["n"])
    got = [list(map(lambda x: x if isinstance(x, int) else str(x), r)) for r in obs[1:]]
    if got != want:
        return "violation", "a LIFO list gives %s, the stack gave %s" % (want, got)
    return "ok", "LIFO behaviour"


def stack_features(case):
    kinds = {tag(op) for op in case[1:]}
    return sexp.dump(case), len(kinds) >= 3, ["kinds=%d" % len(kinds)]


FAMILIES["queue"] = {"oracle": queue_oracle, "features": queue_features,
                     "shrink": lambda c: [[c[0]] + r for r in drop_each(c[1:])]}
FAMILIES["stack"] = {"oracle": stack_oracle, "features": stack_features,
                     "shrink": lambda c: [[c[0]] + r for r in drop_each(c[1:])]}


# ------------------------------------------------------------------ indent (C20 / C08)
def mixed_indent(case):
    """Does some NEWLINE that is not followed by a blank/comment line mix tabs and spaces?"""
    for b in case[2]:
        if tag(b) == "nl" and b[2] == 0 and " " in b[1] and "\t" in b[1]:
            return True
    return False


def indent_oracle(case, obs, exp):
    if tag(obs) == "PANIC":
        if mixed_indent(case):
            return "ok", "panic on indentation mixing tabs and spaces (documented; an error at load time)"
        return "violation", "the lexer panicked on an input without mixed indentation"
    if tag(obs) != "toks":
        return "violation", "no token stream: %s" % sexp.dump(obs)[:200]
    toks = obs[1:]
    depth = 0
    for i, t in enumerate(toks):
        if t == 1:
            depth += 1
        elif t == 2:
            depth -= 1
            if depth < 0:
                return "violation", "DEDENT without a matching INDENT at token %d" % i
        elif t == -2:
            return "violation", "NextToken returned nil at token %d" % i
    if depth != 0:
        return "violation", "%d INDENT without DEDENT at the end of the stream" % depth
    if toks.count(-1) != 1 or toks[-1] != -1:
        return "violation", "the stream does not end with exactly one EOF"
    return "unknown", "stream is balanced and ends with one EOF, but differs from the model's stream"


def indent_features(case):
    nls = [b for b in case[2] if tag(b) == "nl"]
    widths = {len(b[1].replace("\r", "").replace("\n", "")) for b in nls if b[2] == 0}
    skipped = sum(1 for b in nls if b[2] == 1)
    labels = ["newlines<=3" if len(nls) <= 3 else "newlines>3", "skipped=%d" % min(skipped, 3),
              "widths=%d" % min(len(widths), 4), "mixed" if mixed_indent(case) else "clean",
              "crlf" if "\r\n" in case[3] else "lf", "tabs" if "\t" in case[3] else "notabs"]
    return case[3], len(widths) >= 2, labels


def indent_shrink(case):
    text = case[3]
    lines = text.split("\n")
    out = []
    for r in drop_each(lines):
        out.append([case[0], case[1], [], sexp.Sym("\n".join(r))])
    return out


FAMILIES["indent"] = {"oracle": indent_oracle, "features": indent_features, "shrink": indent_shrink,
                      "needs_norm": True}

# ------------------------------------------------------------------ properties
PROPERTIES["C20"] = {
    "families": [("queue", 500, 20000), ("stack", 200, 5000), ("indent", 800, 30000)],
    "rule": "queue/stack: random operation sequences in phases of different enqueue pressure "
            "(<=120 ops quick, <=400 thorough); distinct by the op sequence, non-trivial when the ring "
            "buffer grows at least once (growths / growths with a wrapped head are in the histograms). "
            "indent: random indented node texts (spaces/tabs/mixed, blank, whitespace-only and comment "
            "lines, CRLF); distinct by text, non-trivial when >= 2 different indentation widths occur.",
    "assumptions": ["the base token stream fed to the indentation model is the one the generated ANTLR lexer "
                    "produces (modelled, not verified)"],
}
