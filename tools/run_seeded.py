#!/usr/bin/env python3
"""run_seeded.py [--tier quick|thorough] [<seeded-dir-name> ...]

For each kept seeded change under /verif/seeded/<name>/: apply patch.diff to /repo, run the check
of the property it breaks (meta.json "property"; extra ids in "also"), undo the patch, and record
whether the check reported a violation.  Writes seeded/<name>/result.json and seeded/RESULTS.md.
/repo must be clean when this starts; it is restored with `git checkout -- .` after every patch,
also when the check crashes."""
import json, os, subprocess, sys, time, re

ROOT = '/verif'
def sh(cmd, **kw):
    return subprocess.run(cmd, shell=True, stdout=subprocess.PIPE, stderr=subprocess.STDOUT, text=True, **kw)

def main():
    args = sys.argv[1:]
    tier = 'quick'
    if args[:1] == ['--tier']:
        tier = args[1]; args = args[2:]
    names = args or sorted(d for d in os.listdir(ROOT + '/seeded') if os.path.isdir(ROOT + '/seeded/' + d))
    dirty = sh('git -C /repo status --porcelain --untracked-files=no').stdout.strip()
    if dirty:
        print('refusing: /repo is not clean:\n' + dirty); sys.exit(2)
    # evidence files describe runs on the unchanged tree: keep them out of the way of these runs
    import shutil, tempfile
    keep = tempfile.mkdtemp(prefix='evidence-keep-')
    for f in os.listdir(ROOT + '/evidence'):
        shutil.copy2(ROOT + '/evidence/' + f, keep)
    try:
        run_all(names, tier)
    finally:
        for f in os.listdir(keep):
            shutil.copy2(keep + '/' + f, ROOT + '/evidence/' + f)
        shutil.rmtree(keep)
    summary()


def run_all(names, tier):
    for name in names:
        d = ROOT + '/seeded/' + name
        meta = json.load(open(d + '/meta.json'))
        props = [meta['property']] + meta.get('also', [])
        res = {'seeded': name, 'tier': tier, 'checks': []}
        r = sh('git -C /repo apply %s/patch.diff' % d)
        if r.returncode != 0:
            print(name, 'patch does not apply:', r.stdout); continue
        try:
            for p in props:
                t0 = time.time()
                r = sh('cd %s && VERIF_SEED=%s python3 tools/check.py %s --tier %s' % (ROOT, os.environ.get('VERIF_SEED', '1'), p, tier))
                vio = [l for l in r.stdout.splitlines() if l.startswith('VIOLATION')]
                replays = []
                for l in vio[:3]:
                    m = re.search(r'replay=(\S+)', l)
                    if m:
                        path = m.group(1) if m.group(1).startswith('/') else ROOT + '/' + m.group(1)
                        try:
                            replays.append(open(path).read()[:1500])
                        except OSError:
                            pass
                res['checks'].append({'property': p, 'exit': r.returncode, 'violations': vio[:5],
                                      'n_violations': len(vio), 'first_replays': replays,
                                      'seconds': round(time.time() - t0, 1),
                                      'detected': r.returncode == 1 and bool(vio)})
                print('%s: check %s exit=%d violations=%d (%.0fs)' % (name, p, r.returncode, len(vio), time.time() - t0))
                for l in vio[:2]:
                    print('   ', l)
        finally:
            sh('git -C /repo checkout -- . && git -C /repo clean -fdq')   # patches may add files
        json.dump(res, open(d + '/result.json', 'w'), indent=1)


def summary():
    lines = ['# Seeded changes vs checks', '',
             '| seeded | property | what the change does | needs | check result |', '|---|---|---|---|---|']
    for name in sorted(os.listdir(ROOT + '/seeded')):
        d = ROOT + '/seeded/' + name
        if not os.path.isfile(d + '/result.json'):
            continue
        meta = json.load(open(d + '/meta.json')); res = json.load(open(d + '/result.json'))
        out = '; '.join('%s %s: %s' % (c['property'], res['tier'],
                        ('detected (%d VIOLATION lines, %ss)' % (c['n_violations'], c['seconds'])) if c['detected'] else 'MISSED')
                        for c in res['checks'])
        clean = lambda s: str(s).replace('|', '/').replace('\n', ' ')
        lines.append('| %s | %s | %s | %s | %s |' % (name, meta['property'], clean(meta.get('summary', ''))[:400],
                                                  clean(meta.get('needs', ''))[:300], out))
    open(ROOT + '/seeded/RESULTS.md', 'w').write('\n'.join(lines) + '\n')

if __name__ == '__main__':
    main()
