#!/usr/bin/env python3
"""gen_exprtable.py [--check]

Translator: reads the ANTLR-generated expression rule of /repo (internal/parser/yarnspinner_parser.go,
func (p *YarnSpinnerParser) expression(_p int)) and the token->operator map of
internal/tree/expression.go, and writes coq/Generated/ExprTable.v: for every binary alternative of
the left-recursive rule its precedence predicate level (p.Precpred(ctx, k)), the set of operator
tokens it accepts and the precedence its right operand is parsed with (p.expression(k')); for the
two prefix alternatives the precedence of their operand; the tokens that start a value.

The Coq parser model (Syntax/ExprParser.v) is parameterised by this table, and the theorems of
Proofs/ExprParserProofs.v / Props/C02.v are re-checked against the table as generated from the
current source on every run.  Exit 2 with a message when the source no longer has the expected shape
(then the tie is broken and the check reports it)."""
import re, sys, os

REPO = os.environ.get("VERIF_REPO", "/repo")
OUT = os.path.join(os.path.dirname(os.path.abspath(__file__)), "..", "coq", "Generated", "ExprTable.v")

GO_TO_COQ = {  # names of internal/tree/expression.go -> constructors of Yarn/Ast.v binop
    "MultiplicationBinaryOperator": "OMul", "DivisionBinaryOperator": "ODiv", "ModuloBinaryOperator": "OMod",
    "AdditionBinaryOperator": "OAdd", "SubtractionBinaryOperator": "OSub",
    "LessThanEqualsBinaryOperator": "OLe", "GreaterThanEqualsBinaryOperator": "OGe",
    "LessBinaryOperator": "OLt", "GreaterBinaryOperator": "OGt",
    "EqualsBinaryOperator": "OEq", "NotEqualsBinaryOperator": "ONe",
    "AndBinaryOperator": "OAnd", "OrBinaryOperator": "OOr", "XorBinaryOperator": "OXor"}


def fail(msg):
    print("gen_exprtable: " + msg, file=sys.stderr)
    sys.exit(2)


def main():
    src = open(REPO + "/internal/parser/yarnspinner_parser.go").read()
    tree = open(REPO + "/internal/tree/expression.go").read()
    # token numbers
    toks = {m.group(1): int(m.group(2)) for m in re.finditer(r"\bYarnSpinnerParser([A-Z_0-9]+)\s*=\s*(\d+)", src)}
    if "OPERATOR_MATHS_SUBTRACTION" not in toks:
        fail("token constants not found")
    num2tok = {}
    for k, v in toks.items():
        if not k.startswith("RULE_") and k != "EOF":
            num2tok.setdefault(v, k)
    m = re.search(r"func \(p \*YarnSpinnerParser\) expression\(_p int\) \(localctx IExpressionContext\) \{(.*?)\n}\n", src, re.S)
    if not m:
        fail("expression(_p) not found")
    body = m.group(1)
    head, _, loop = body.partition("AdaptivePredict")
    # prefix alternatives
    prefix = {}
    for cm in re.finditer(r"case ([A-Za-z_0-9, ]+):\s*\n\s*localctx = New(\w+)Context\(p, localctx\)(.*?)(?=\n\tcase |\n\tdefault:)", head, re.S):
        names = [t.strip().replace("YarnSpinnerParser", "") for t in cm.group(1).split(",")]
        ctx, code = cm.group(2), cm.group(3)
        rec = re.findall(r"p\.expression\((\d+)\)", code)
        prefix[ctx] = (names, [int(x) for x in rec])
    for need in ("ExpParens", "ExpNegative", "ExpNot", "ExpValue"):
        if need not in prefix:
            fail("prefix alternative %s not found" % need)
    if prefix["ExpParens"][0] != ["LPAREN"] or prefix["ExpParens"][1] != [0]:
        fail("unexpected shape of the parenthesis alternative: %r" % (prefix["ExpParens"],))
    if prefix["ExpNegative"][0] != ["OPERATOR_MATHS_SUBTRACTION"] or len(prefix["ExpNegative"][1]) != 1:
        fail("unexpected shape of the unary minus alternative")
    if prefix["ExpNot"][0] != ["OPERATOR_LOGICAL_NOT"] or len(prefix["ExpNot"][1]) != 1:
        fail("unexpected shape of the not alternative")
    # binary alternatives of the loop
    alts = []
    for cm in re.finditer(r"case (\d+):\s*\n\s*localctx = New(\w+)Context\(p, NewExpressionContext\(p, _parentctx, _parentState\)\)(.*?)(?=\n\t\t\tcase )", loop, re.S):
        ctx, code = cm.group(2), cm.group(3)
        pp = re.findall(r"if !\(p\.Precpred\(p\.GetParserRuleContext\(\), (\d+)\)\)", code)
        rec = re.findall(r"p\.expression\((\d+)\)", code)
        if len(pp) != 1 or len(rec) != 1:
            fail("alternative %s: expected one precedence predicate and one recursive call" % ctx)
        mask = re.search(r"\(\(int64\(1\)<<_la\)&(\d+)\) != 0", code)
        if mask:
            bits = int(mask.group(1))
            ts = [num2tok[i] for i in range(64) if bits >> i & 1]
        else:
            ts = re.findall(r"_la == YarnSpinnerParser(\w+)", code)
        if not ts:
            fail("alternative %s: no operator tokens found" % ctx)
        alts.append((ctx, int(pp[0]), int(rec[0]), ts))
    if len(alts) < 1:
        fail("no binary alternatives found")
    # token -> operator
    t2o = {}
    mm = re.search(r"func tokenToBinaryOperator\(token int\).*?\{(.*?)\}\[token\]", tree, re.S)
    if not mm:
        fail("tokenToBinaryOperator not found")
    for em in re.finditer(r"parser\.YarnSpinnerLexer(\w+):\s*(\w+),", mm.group(1)):
        if em.group(2) not in GO_TO_COQ:
            fail("unknown operator constant " + em.group(2))
        t2o[em.group(1)] = GO_TO_COQ[em.group(2)]
    rows = []
    for ctx, lvl, rp, ts in alts:
        for t in ts:
            if t not in t2o:
                fail("token %s of alternative %s has no tree operator" % (t, ctx))
            rows.append((t2o[t], lvl, rp, ctx, t))
    seen = [r[0] for r in rows]
    if sorted(seen) != sorted(set(seen)) or set(seen) != set(GO_TO_COQ.values()):
        fail("the binary alternatives do not cover each of the 14 operators exactly once: %r" % seen)
    out = ["(* GENERATED by tools/gen_exprtable.py from /repo/internal/parser/yarnspinner_parser.go (rule",
           "   `expression`) and /repo/internal/tree/expression.go (tokenToBinaryOperator). Do not edit:",
           "   every check run regenerates this file from the current source. *)",
           "From Coq Require Import List.", "From YS Require Import Yarn.Ast.", "Import ListNotations.", "",
           "(* operator, level of its precedence predicate p.Precpred(ctx, level), precedence its right operand",
           "   is parsed with (p.expression(k)); in the order of the alternatives of the generated loop *)",
           "Definition binop_rows : list (binop * nat * nat) :=", "  ["]
    out.append(";\n".join("   (%s, %d, %d)  (* %s, %s *)" % r for r in rows).replace(")  (*", ")  (*", 1))
    out += ["  ].", "",
            "(* operand precedence of the prefix alternatives: '-' expression  /  OPERATOR_LOGICAL_NOT expression *)",
            "Definition neg_operand_prec : nat := %d." % prefix["ExpNegative"][1][0],
            "Definition not_operand_prec : nat := %d." % prefix["ExpNot"][1][0], ""]
    text = "\n".join(out)
    # comments inside the list: Coq accepts (* *) after the separator only if placed before ';' - rewrite
    lines = []
    for r in rows[:-1]:
        lines.append("   (%s, %d, %d); (* %s, %s *)" % r)
    lines.append("   (%s, %d, %d)  (* %s, %s *)" % rows[-1])
    text = "\n".join(out[:11] + lines + out[12:])
    if len(sys.argv) > 1 and sys.argv[1] == "--check":
        cur = open(OUT).read() if os.path.exists(OUT) else ""
        sys.exit(0 if cur == text else 1)
    cur = open(OUT).read() if os.path.exists(OUT) else None
    if cur != text:
        open(OUT, "w").write(text)
        print("gen_exprtable: wrote", os.path.normpath(OUT))


if __name__ == "__main__":
    main()
