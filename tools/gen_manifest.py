#!/usr/bin/env python3
"""Writes MANIFEST.json from the table below (kept in one place so it stays valid)."""
import json, os, sys
ROOT = os.path.dirname(os.path.dirname(os.path.abspath(__file__)))
sys.path.insert(0, os.path.join(ROOT, "tools"))
import manifest_data as M

checks = []
for pid in sorted(M.CLAIMED):
    c = M.CLAIMED[pid]
    checks.append({
        "property_id": pid,
        "quick_cmd": "python3 tools/check.py %s --tier quick" % pid,
        "thorough_cmd": "python3 tools/check.py %s --tier thorough" % pid,
        "evidence_file": "/verif/evidence/%s.json" % pid,
        "replay_cmd_template": "python3 tools/check.py --replay {path}",
        "engine": "coq-model+correspondence",
        "level_claimed": {"category": "proof", "text": c["text"], "design_ref": c["design_ref"]},
        "level_note": c["note"],
        "technique": c["technique"],
    })
all_ids = ["C%02d" % i for i in range(1, 21)]
na = [{"property_id": p, "reason": M.NOT_APPLICABLE.get(p, "check not built yet in this round; planned (DESIGN.md section 5)")}
      for p in all_ids if p not in M.CLAIMED]
manifest = {
    "version": 1,
    "setup_cmd": "make -C /verif setup",
    "hooks": {
        "guard": "verif",
        "enable": "go build -tags verif (harness module /verif/harness with replace github.com/remieven/ysgo => /repo)",
        "baseline_off_cmd": "cd /repo && go test -mod=mod -json -vet=off -count=1 -timeout 25m ./...",
        "source_commits": M.HOOK_COMMITS,
        "add_only": True,
    },
    "engines": [{
        "name": "coq-model+correspondence",
        "path": "/verif/coq, /verif/ocaml, /verif/harness, /verif/tools/check.py",
        "serves_properties": sorted(M.CLAIMED),
        "kind_free_text": "Coq 8.16.1 theorems about a hand-written executable Gallina model of the Go code; "
                          "the model is extracted to OCaml and run against the implementation (built from /repo's "
                          "working tree, build tag verif) on generated cases; disagreements are shrunk and judged by "
                          "a per-property oracle",
    }],
    "checks": checks,
    "notes": M.NOTES,
    "not_applicable": na,
}
json.dump(manifest, open(os.path.join(ROOT, "MANIFEST.json"), "w"), indent=1)
print("MANIFEST.json written: %d checks, %d not claimed" % (len(checks), len(na)))
