#!/bin/bash
# seed_verify.sh <ID> <outdir> <worktree>
# Confirms a seeded change independently of the agent that wrote it, in its scratch worktree:
#   patch applies to a clean tree; library builds (with and without -tags verif); the unedited
#   test suite passes with the patch; the demonstration fails with it and passes without it.
# On success the change is stored as /verif/seeded/<ID>/ (patch.diff, demo, meta.json).
set -u
export GOFLAGS=-mod=mod GOPROXY=off GOSUMDB=off GOTOOLCHAIN=local
id=$1; out=$2; wt=$3
log() { echo "[seed_verify $id] $*"; }
cd "$wt" || exit 2
git reset -q --hard; git clean -fdq
demo_dir=$(python3 -c "import json;print(json.load(open('$out/meta.json')).get('demo_dir','.'))")
git apply --check "$out/patch.diff" || { log "patch does not apply"; exit 1; }
git apply "$out/patch.diff"
if git diff --name-only | grep -q '_test.go$'; then log "patch touches tests"; exit 1; fi
go build ./... || { log "build fails"; exit 1; }
go build -tags verif ./... || { log "verif build fails"; exit 1; }
# TestCommandStorer has a 0.1 s timing assertion that fails now and then on a loaded machine: up to 3 attempts
ok=0; for attempt in 1 2 3; do go test -vet=off -count=1 ./... > /tmp/seed/$id.suite.log 2>&1 && { ok=1; break; }; sleep 2; done
[ $ok = 1 ] || { log "suite FAILS with patch"; tail -20 /tmp/seed/$id.suite.log; exit 1; }
log "suite passes with patch"
cp "$out/zz_seed_demo_test.go" "$demo_dir/zz_seed_demo_test.go"
if (cd "$demo_dir" && go test -vet=off -count=1 -run 'Seed|Demo|seed|demo' . > /tmp/seed/$id.demo_with.log 2>&1); then
  # maybe test names do not match the filter: run everything in the package
  if (cd "$demo_dir" && go test -vet=off -count=1 . > /tmp/seed/$id.demo_with.log 2>&1); then
    log "demo PASSES with patch (bad)"; exit 1
  fi
fi
log "demo fails with patch"
git apply -R "$out/patch.diff"
(cd "$demo_dir" && go test -vet=off -count=1 . > /tmp/seed/$id.demo_without.log 2>&1) || { log "demo FAILS without patch (bad)"; tail -20 /tmp/seed/$id.demo_without.log; exit 1; }
log "demo passes without patch"
rm -f "$demo_dir/zz_seed_demo_test.go"
git reset -q --hard; git clean -fdq
mkdir -p /verif/seeded/$id
cp "$out/patch.diff" /verif/seeded/$id/patch.diff
cp "$out/zz_seed_demo_test.go" /verif/seeded/$id/zz_seed_demo_test.go
python3 - "$id" "$out" <<'EOF'
import json,sys
id,out=sys.argv[1],sys.argv[2]
m=json.load(open(out+'/meta.json'))
m['property']=id[:3]
m['confirmed']=["git apply --check patch.diff on a clean worktree: ok",
  "go build ./... and go build -tags verif ./... with the patch: ok",
  "go test -vet=off -count=1 ./... with the patch (suite unedited): pass",
  "demonstration placed in %s: fails with the patch, passes without it" % m.get('demo_dir','.')]
json.dump(m,open('/verif/seeded/%s/meta.json'%id,'w'),indent=1)
EOF
log "stored in /verif/seeded/$id"
