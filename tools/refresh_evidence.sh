#!/bin/bash
# Runs every quick check on the unchanged tree (refuses when /repo has local changes) so that the
# evidence files that get committed describe clean-tree runs.
set -u
cd /verif
if [ -n "$(git -C /repo status --porcelain --untracked-files=no)" ]; then echo "/repo is not clean"; exit 2; fi
rc=0
for i in 01 02 03 04 05 06 07 08 09 10 11 12 13 14 15 16 17 18 19 20; do
  out=$(VERIF_SEED=${VERIF_SEED:-1} python3 tools/check.py C$i --tier quick 2>&1) || rc=1
  echo "$out" | grep -v '^KNOWN-FINDING' | tail -2
done
exit $rc
