"""S-expression reader/printer matching coq/Base/Sexp.v and harness/sx (ints, quoted strings, lists)."""


class Sym(str):
    """A string atom (always printed quoted)."""


def parse(s):
    pos = 0
    n = len(s)

    def skip():
        nonlocal pos
        while pos < n and s[pos] in " \t\r\n":
            pos += 1

    def node():
        nonlocal pos
        skip()
        if pos >= n:
            raise ValueError("unexpected end")
        c = s[pos]
        if c == "(":
            pos += 1
            out = []
            while True:
                skip()
                if pos >= n:
                    raise ValueError("unterminated list")
                if s[pos] == ")":
                    pos += 1
                    return out
                out.append(node())
        if c == '"':
            pos += 1
            buf = []
            while True:
                if pos >= n:
                    raise ValueError("unterminated string")
                c = s[pos]
                pos += 1
                if c == '"':
                    return Sym("".join(buf))
                if c != "\\":
                    buf.append(c)
                    continue
                e = s[pos]
                pos += 1
                if e == "n":
                    buf.append("\n")
                elif e == "r":
                    buf.append("\r")
                elif e == "t":
                    buf.append("\t")
                elif e == "u":
                    end = s.index("}", pos)
                    buf.append(chr(int(s[pos + 1:end], 16)))
                    pos = end + 1
                else:
                    buf.append(e)
        start = pos
        while pos < n and s[pos] not in ' \t\r\n()"':
            pos += 1
        atom = s[start:pos]
        try:
            if atom.startswith("+"):
                raise ValueError
            return int(atom)
        except ValueError:
            return Sym(atom)

    r = node()
    skip()
    if pos != n:
        raise ValueError("trailing input")
    return r


def dump(e):
    if isinstance(e, bool):
        return "1" if e else "0"
    if isinstance(e, int):
        return str(e)
    if isinstance(e, str):
        out = ['"']
        for c in e:
            o = ord(c)
            if c == '"':
                out.append('\\"')
            elif c == "\\":
                out.append("\\\\")
            elif c == "\n":
                out.append("\\n")
            elif c == "\r":
                out.append("\\r")
            elif c == "\t":
                out.append("\\t")
            elif 32 <= o < 127:
                out.append(c)
            else:
                out.append("\\u{%x}" % o)
        out.append('"')
        return "".join(out)
    return "(" + " ".join(dump(x) for x in e) + ")"


def tag(e):
    if isinstance(e, list) and e and isinstance(e[0], str):
        return str(e[0])
    return None
