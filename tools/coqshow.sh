#!/bin/bash
# usage: coqshow.sh File.v LINE  -- compile a copy with "Show." inserted before LINE, print the goals
f=$1; n=$2
tmp=$(dirname $f)/ZZtmp_$$.v
awk -v n=$n 'NR==n{print "Show."} {print}' $f > $tmp
cd /verif/coq && timeout 300 coqc -Q . YS $tmp 2>&1 | head -${3:-60}
rm -f $tmp ${tmp%.v}.vo ${tmp%.v}.glob ${tmp%.v}.vok ${tmp%.v}.vos $(dirname $tmp)/.ZZtmp_$$.aux
