#!/usr/bin/env python3
"""Orchestrator for the ysgo verification checks.

    python3 tools/check.py <property-id> --tier quick|thorough
    python3 tools/check.py --replay replays/<file>.sexp

For one property: (1) re-check the Coq development the property's theorems depend on and the
property file itself (full .vo build, Print Assumptions captured); (2) rebuild the harness from
/repo's working tree with -tags verif; (3) run corpus + generated cases through the extracted model
and the implementation and compare the projected observables; (4) shrink and classify every
disagreement with the property's own oracle; (5) write evidence/<id>.json.

Exit 0: the property held on everything explored.  Exit 1 + "VIOLATION property=<id> replay=<path>"
otherwise.  See DESIGN.md section 2.4.
"""
import hashlib
import json
import os
import re
import subprocess
import sys
import time

ROOT = os.path.dirname(os.path.dirname(os.path.abspath(__file__)))
sys.path.insert(0, os.path.join(ROOT, "tools"))
import sexp  # noqa: E402
import families  # noqa: E402

COQ = os.path.join(ROOT, "coq")
MODEL = os.path.join(ROOT, "ocaml", "model")
HARNESS = os.path.join(ROOT, "harness", "bin", "verifharness")
GOENV = dict(os.environ, GOFLAGS="-mod=mod", GOPROXY="off", GOSUMDB="off", GOTOOLCHAIN="local",
             CGO_ENABLED=os.environ.get("CGO_ENABLED", "1"))
FORBIDDEN = re.compile(r"\b(Admitted|admit|Axiom|Parameter|Conjecture|Unset Guard|bypass_check|type-in-type|"
                       r"impredicative-set|Admit Obligations)\b")


def sh(cmd, timeout, cwd=ROOT, env=None, stdin=None):
    try:
        p = subprocess.run(cmd, cwd=cwd, env=env, input=stdin, stdout=subprocess.PIPE,
                           stderr=subprocess.STDOUT, timeout=timeout, text=True)
        return p.returncode, p.stdout
    except subprocess.TimeoutExpired as e:
        out = e.stdout if isinstance(e.stdout, str) else (e.stdout or b"").decode("utf8", "replace")
        return 124, out + "\nTIMEOUT after %ss" % timeout


# ----------------------------------------------------------------------------- Coq stage
def coq_stage(pid, tier):
    """Build the .vo files Props/<pid>.v depends on, then Props/<pid>.v itself, capturing the
    Print Assumptions output.  Returns a dict."""
    res = {"ok": False, "theorems": [], "axioms": {}, "log": "", "broken": None}
    props = os.path.join(COQ, "Props", pid + ".v")
    src = open(props).read()
    res["theorems"] = re.findall(r"^(?:Theorem|Corollary)\s+(\w+)", src, re.M)
    # forbidden constructs anywhere in the development
    bad = []
    for d, _, fs in os.walk(COQ):
        for f in fs:
            if f.endswith(".v"):
                text = open(os.path.join(d, f)).read()
                text = re.sub(r"\(\*.*?\*\)", "", text, flags=re.S)
                for m in FORBIDDEN.finditer(text):
                    bad.append("%s: %s" % (os.path.relpath(os.path.join(d, f), COQ), m.group(0)))
    if bad:
        res["broken"] = "forbidden construct(s): " + "; ".join(bad[:5])
        res["log"] = res["broken"]
        return res
    # translator: regenerate coq/Generated/ExprTable.v from /repo's current source
    rc, out = sh([sys.executable, os.path.join(ROOT, "tools", "gen_exprtable.py")], 120)
    if rc != 0:
        res["broken"] = ("translator tools/gen_exprtable.py: the expression rule of the generated parser no longer has "
                         "the shape the translator reads: " + out.strip()[-400:])
        res["log"] = out[-2000:]
        return res
    rc, out = sh(["make", "-s", "coq-target", "T=Props/%s.vo" % pid], 3000)
    res["log"] = out[-4000:]
    if rc != 0:
        m = re.search(r'File "\./([^"]+)", line (\d+)', out)
        res["broken"] = "Coq build failed" + (" at %s line %s" % (m.group(1), m.group(2)) if m else "")
        return res
    # re-run coqc on the property file to capture Print Assumptions
    rc, out = sh(["coqc", "-Q", ".", "YS", "Props/%s.v" % pid], 900, cwd=COQ)
    res["log"] = out[-6000:]
    if rc != 0:
        res["broken"] = "coqc Props/%s.v failed" % pid
        return res
    # parse assumptions: blocks in order of Print Assumptions commands
    names = re.findall(r"^Print Assumptions\s+(\w+)\.", src, re.M)
    blocks = re.split(r"(?m)^(?=Closed under the global context|Axioms:)", out)
    blocks = [b for b in blocks if b.startswith("Closed") or b.startswith("Axioms:")]
    for i, nme in enumerate(names):
        if i < len(blocks):
            b = blocks[i]
            if b.startswith("Closed"):
                res["axioms"][nme] = []
            else:
                res["axioms"][nme] = sorted(set(re.findall(r"^([A-Za-z_][\w.']*)\s*:", b, re.M)) - {"Axioms"})
    if len(blocks) != len(names):
        res["broken"] = "could not match Print Assumptions output (%d blocks, %d commands)" % (len(blocks), len(names))
        return res
    res["ok"] = True
    if tier == "thorough":
        rc, out = sh(["make", "-s", "coqchk", "T=YS.Props.%s" % pid], 3400)
        res["coqchk"] = out[-3000:]
        if rc != 0:
            res["ok"] = False
            res["broken"] = "coqchk failed"
    return res


# ----------------------------------------------------------------------------- build stage
def build_stage(race=False):
    rc, out = sh(["make", "-s", "model"], 1800)
    if rc != 0:
        return "model build failed:\n" + out[-3000:]
    rc, out = sh(["make", "-s", "harness"], 1200, env=GOENV)
    if rc != 0:
        return "harness build failed (the implementation no longer offers what the hooks or the harness use):\n" + out[-3000:]
    if race:
        rc, out = sh(["make", "-s", "harness-race"], 1800, env=GOENV)
        if rc != 0:
            return "race-detector harness build failed:\n" + out[-3000:]
    return None


def run_lines(binary_cmd, lines, timeout, env=None):
    """Feed lines to a line-oriented subprocess; returns list of output lines (padded with a
    crash marker when the process dies)."""
    if not lines:
        return []
    rc, out = sh(binary_cmd, timeout, stdin="\n".join(lines) + "\n", env=env)
    outs = [l for l in out.split("\n") if l.strip() != ""]
    res = [l for l in outs if l.startswith("(")]
    if len(res) < len(lines):
        # the process crashed/hung: re-run line by line from the first missing one to localise
        return None
    return res[:len(lines)]


def run_impl(fam, lines, timeout=600):
    F = families.FAMILIES[fam]
    cmd = [F.get("binary", HARNESS), "run", fam]
    env = dict(GOENV, **F.get("env", {}))
    out = run_lines(cmd, lines, timeout, env=env)
    if out is not None:
        return out
    # isolate crashing / hanging cases
    res = []
    for l in lines:
        o = run_lines(cmd, [l], 120, env=env)
        res.append(o[0] if o else '("CRASH")')
    return res


MODEL_CMD = ["bash", "-c", "ulimit -s 4000000 2>/dev/null || ulimit -s unlimited 2>/dev/null; exec " + MODEL]


def run_model(lines, timeout=900):
    if os.environ.get("VERIF_DEBUG"):
        with open(os.path.join(ROOT, "replays", "last_model_input.txt"), "w") as f:
            f.write("\n".join(lines) + "\n")
    out = run_lines(MODEL_CMD, lines, timeout)
    if out is not None:
        return out
    res = []
    for l in lines:
        o = run_lines(MODEL_CMD, [l], 120)
        res.append(o[0] if o else '("MODEL-CRASH")')
    return res


def normalise(fam, lines):
    """Recompute derived fields of cases (identity for most families)."""
    if not families.FAMILIES[fam].get("needs_norm"):
        return lines
    out = run_lines([HARNESS, "norm", fam], lines, 300, env=GOENV)
    return out if out is not None else lines


# ----------------------------------------------------------------------------- shrinking
def shrink(fam, case_line, orig_obs="", budget=25, seconds=45):
    """Greedy shrinking: repeatedly try the family's smaller candidates, keep the first that
    still disagrees in the same way (and is still a well-formed case on both sides)."""
    F = families.FAMILIES[fam]
    cur = case_line
    rounds = 0
    t_end = time.time() + seconds
    keep_kind = F.get("shrink_ok", lambda orig, cand: True)
    while rounds < budget and time.time() < t_end:
        rounds += 1
        try:
            cands = F["shrink"](sexp.parse(cur))
        except Exception:
            break
        cands = [sexp.dump(c) for c in cands][:60]
        if not cands:
            break
        cands = normalise(fam, cands)
        exp = run_model(cands, timeout=120)
        keep = [i for i, e in enumerate(exp) if '("fuel")' not in e and "MODEL-CRASH" not in e]
        cands = [cands[i] for i in keep]
        exp = [exp[i] for i in keep]
        obs = run_impl(fam, cands, timeout=120)
        pick = None
        for c, e, o in zip(cands, exp, obs):
            if "BADCASE" in e or "BADCASE" in o or "HARNESS-PANIC" in o:
                continue
            differs = families.project(fam, e) != families.project(fam, o)
            if not differs and F.get("always_oracle"):
                try:
                    differs = F["oracle"](sexp.parse(c), sexp.parse(o), sexp.parse(e))[0] == "violation"
                except Exception:
                    differs = False
            if differs and keep_kind(orig_obs, o):
                pick = c
                break
        if pick is None:
            break
        cur = pick
    return cur


# ----------------------------------------------------------------------------- main check
def load_known():
    p = os.path.join(ROOT, "known_findings.json")
    if not os.path.exists(p):
        return {"findings": [], "fixed": []}
    return json.load(open(p))


def write_replay(pid, fam, seed, n, case, exp, obs, verdict, detail, name):
    os.makedirs(os.path.join(ROOT, "replays"), exist_ok=True)
    path = os.path.join("replays", "%s-%s-%d.sexp" % (pid, fam, n))
    with open(os.path.join(ROOT, path), "w") as f:
        f.write("; replay with: python3 tools/check.py --replay %s\n" % path)
        f.write("(property %s)\n(family %s)\n(seed %d)\n" % (pid, fam, seed))
        f.write("(verdict %s)\n" % sexp.dump(verdict))
        f.write("(detail %s)\n" % sexp.dump(detail))
        f.write("(theorem-or-correspondence %s)\n" % sexp.dump(name))
        f.write("(case %s)\n(expected %s)\n(observed %s)\n" % (case, exp, obs))
    return path


def read_replay(path):
    d = {}
    for line in open(path):
        line = line.strip()
        if not line or line.startswith(";"):
            continue
        m = re.match(r"\((\S+) (.*)\)$", line, re.S)
        if m:
            d[m.group(1)] = m.group(2)
    return d


def check_property(pid, tier, seed):
    t0 = time.time()
    P = families.PROPERTIES[pid]
    known = load_known()
    violations = []      # (replay path, suffix)
    known_lines = []
    notes = []
    coq = coq_stage(pid, tier)
    build_err = build_stage(race=any(families.FAMILIES[f].get("binary") for f, _, _ in P["families"]))
    cov = {"evaluations": 0, "distinct_nontrivial": 0, "samples": [], "families": {}, "histograms": {}}
    distinct = set()
    fam_ok = {}
    unresolved = []      # disagreements the oracle could not turn into a concrete violation
    vcount = 0
    if build_err is None:
        for fam, nq, nt in P["families"]:
            F = families.FAMILIES[fam]
            n = nq if tier == "quick" else nt
            corpus_file = os.path.join(ROOT, "corpus", pid, fam + ".sexp")
            lines = []
            if os.path.exists(corpus_file):
                lines += [l.strip() for l in open(corpus_file) if l.strip().startswith("(")]
            ncorpus = len(lines)
            # recorded, unrepaired defects: each replay runs alone (some kill the process)
            for k in [k for k in known["findings"] if k["property"] == pid and k["family"] == fam]:
                kc = normalise(fam, [k["case"]])[0]
                ke = run_model([kc], timeout=120)[0]
                ko = run_impl(fam, [kc], timeout=120)[0]
                cov["evaluations"] += 1
                if families.matches_signature(k, ke, ko):
                    known_lines.append("KNOWN-FINDING: property=%s %s" % (pid, k["what"]))
                else:
                    notes.append("known finding %s no longer reproduces (observed %s)" % (k.get("id", "?"), ko[:120]))
            nkf = 0
            kf_cases = []
            rc, out = sh([HARNESS, "gen", fam, str(seed), str(n), tier], 1200, env=GOENV)
            gen = [l for l in out.split("\n") if l.startswith("(")]
            if rc != 0 or len(gen) < n:
                notes.append("generator for %s failed: %s" % (fam, out[-500:]))
            lines += gen
            lines = normalise(fam, lines)
            exp = run_model(lines)
            # cases on which the model runs out of fuel are non-yielding jump cycles (known finding D7:
            # the implementation recurses without bound and the process dies); they are not run
            runnable = [i for i, e in enumerate(exp) if '("fuel")' not in e]
            obs_run = run_impl(fam, [lines[i] for i in runnable], timeout=3000 if tier == "thorough" else 900)
            obs = ['("SKIPPED-FUEL")'] * len(lines)
            for i, o in zip(runnable, obs_run):
                obs[i] = o
            hist = {}
            ok = True
            ndis = 0
            nshrunk = 0
            for i, (c, e, o) in enumerate(zip(lines, exp, obs)):
                cov["evaluations"] += 1
                is_kf = ncorpus <= i < ncorpus + nkf
                try:
                    pc = sexp.parse(c)
                    key, nontrivial, labels = F["features"](pc)
                except Exception as ex:  # malformed corpus line
                    notes.append("feature extraction failed on case %d of %s: %s" % (i, fam, ex))
                    key, nontrivial, labels = c, False, []
                for lb in labels:
                    hist[lb] = hist.get(lb, 0) + 1
                h = hashlib.sha1(repr(key).encode()).hexdigest()
                if nontrivial and h not in distinct:
                    distinct.add(h)
                if sum(1 for x in cov["samples"] if x["family"] == fam) < 2 and i >= ncorpus + nkf \
                        and nontrivial and i % 7 == 0:
                    cov["samples"].append({"family": fam, "case": c[:700], "observed": o[:400]})
                if o == '("SKIPPED-FUEL")':
                    hist["not run: non-yielding jump cycle (D7)"] = hist.get("not run: non-yielding jump cycle (D7)", 0) + 1
                    continue
                if "BADCASE" in e or "BADCASE" in o:
                    notes.append("BADCASE in %s case %d: %s / %s" % (fam, i, e[:200], o[:200]))
                    ok = False
                    unresolved.append((fam, c, e, o, "case not understood by model or harness"))
                    continue
                agree = families.project(fam, e) == families.project(fam, o)
                if agree and F.get("always_oracle"):
                    # families judged on the implementation's behaviour alone (no model prediction)
                    try:
                        v0, _ = F["oracle"](pc, sexp.parse(o), sexp.parse(e))
                    except Exception as ex:
                        v0 = "violation"
                        notes.append("oracle failed on case %d of %s: %s" % (i, fam, ex))
                    agree = v0 != "violation"
                if is_kf:
                    k = kf_cases[i - ncorpus]
                    if not agree and families.matches_signature(k, e, o):
                        known_lines.append("KNOWN-FINDING: property=%s %s" % (pid, k["what"]))
                    elif agree:
                        notes.append("known finding %s no longer reproduces" % k.get("id", "?"))
                    else:
                        agree = False
                        is_kf = False
                    if is_kf:
                        continue
                if agree:
                    continue
                if F.get("retry_transient"):
                    # families driven by real timers: a disagreement has to show again when the same case is run
                    # once more (a late timer goroutine on a loaded machine does not; a defect does)
                    try:
                        o2 = run_impl(fam, normalise(fam, [c]), timeout=120)[0]
                        agree2 = families.project(fam, e) == families.project(fam, o2)
                        if agree2 and F.get("always_oracle"):
                            agree2 = F["oracle"](pc, sexp.parse(o2), sexp.parse(e))[0] != "violation"
                    except Exception:
                        agree2 = False
                    if agree2:
                        hist["transient disagreement, not reproduced on a second run"] = hist.get("transient disagreement, not reproduced on a second run", 0) + 1
                        continue
                # a generated case that falls in a listed known-finding class is not a new violation
                kmatch = None
                for k in known["findings"]:
                    if k["property"] == pid and families.in_known_class(k, fam, sexp.parse(c), e, o):
                        kmatch = k
                        break
                if kmatch is not None:
                    hist["known-finding class " + kmatch.get("id", "?")] = hist.get("known-finding class " + kmatch.get("id", "?"), 0) + 1
                    continue
                ok = False
                ndis += 1
                # judge the case as generated first (cheap): disagreements the oracle cannot turn into a
                # failure of the property are kept aside and the scan goes on looking for one it can
                try:
                    v0, d0 = F["oracle"](pc, sexp.parse(o), sexp.parse(e))
                except Exception as ex:
                    v0, d0 = "unknown", "oracle failed: %s" % ex
                if v0 != "violation" and (len(unresolved) >= 2 or nshrunk >= 2):
                    if len(unresolved) < 5:
                        unresolved.append((fam, c, e, o, d0))
                    if ndis >= 400:
                        break
                    continue
                small = shrink(fam, c, o) if nshrunk < 2 else c
                nshrunk += 1
                se = run_model(normalise(fam, [small]))[0]
                so = run_impl(fam, normalise(fam, [small]), timeout=120)[0]
                verdict, detail = F["oracle"](sexp.parse(small), sexp.parse(so), sexp.parse(se))
                if verdict != "violation" and small != c and v0 == "violation":
                    # shrinking lost what the oracle needs (an expectation carried by the case)
                    small, se, so, verdict, detail = c, e, o, v0, d0
                if verdict == "violation":
                    vcount += 1
                    path = write_replay(pid, fam, seed, vcount, small, se, so, verdict, detail,
                                        "correspondence %s (model vs implementation)" % fam)
                    violations.append((path, ""))
                elif len(unresolved) < 5:
                    unresolved.append((fam, small, se, so, detail))
                if vcount >= 5 or ndis >= 400:
                    break
            fam_ok[fam] = ok
            cov["families"][fam] = {"cases": len(lines), "corpus": ncorpus, "known_finding_replays": nkf}
            cov["histograms"][fam] = hist
    else:
        notes.append(build_err)
    cov["distinct_nontrivial"] = len(distinct)
    # -------- disagreements without a concrete property failure, broken proofs, broken builds
    if unresolved and not violations:
        fam, c, e, o, detail = unresolved[0]
        vcount += 1
        path = write_replay(pid, fam, seed, vcount, c, e, o, "unknown", detail,
                            "correspondence %s no longer checks: model and implementation disagree on this input, "
                            "the property oracle found no failure of the property in the implementation's behaviour" % fam)
        violations.append((path, " no-failing-input-found"))
    if build_err is not None and not violations:
        vcount += 1
        path = write_replay(pid, "build", seed, vcount, "()", "()", "()", "unknown", build_err[-1500:],
                            "correspondence cannot run: " + build_err.split("\n")[0])
        violations.append((path, " no-failing-input-found"))
    if not coq["ok"] and not violations:
        vcount += 1
        path = write_replay(pid, "coq", seed, vcount, "()", "()", "()", "unknown", coq["log"][-1500:],
                            "theorems of Props/%s.v no longer check: %s" % (pid, coq["broken"]))
        violations.append((path, " no-failing-input-found"))
    # -------- evidence
    nthm = len(coq["theorems"])
    nfam = len(P["families"])
    discharged = (nthm if coq["ok"] else 0) + sum(1 for f in fam_ok if fam_ok[f])
    axioms = sorted({a for l in coq["axioms"].values() for a in l})
    cov.update({
        "obligations": nthm + nfam,
        "discharged": discharged,
        "checker_cmd": "make coq-target T=Props/%s.vo && coqc -Q . YS Props/%s.v (in /verif/coq)%s" % (
            pid, pid, " && coqchk -silent -o YS.Props.%s" % pid if tier == "thorough" else ""),
        "trusted_base": [
            "Coq 8.16.1 kernel (vm_compute only where a proof says so; no native_compute)",
            "axioms reported by Print Assumptions: " + (", ".join(axioms) if axioms else "none (closed under the global context)"),
            "hand-written Gallina model of the Go code, tied to /repo by the correspondence families " +
            ", ".join(f for f, _, _ in P["families"]),
            "extraction with ExtrOcamlBasic only; OCaml 4.13.1; ocaml/driver.ml (byte I/O)",
            "Go harness + verif hooks, tools/check.py comparer and shrinker",
        ] + P.get("trusted", []),
        "rule": P["rule"],
        "theorems": coq["theorems"],
        "axioms_per_theorem": coq["axioms"],
        "coq_ok": coq["ok"],
        "notes": notes[:20],
    })
    if not cov["samples"]:
        cov["samples"] = [{"note": "no generated case was sampled (build failure or empty run)"}]
    ev = {
        "property_id": pid, "tier": tier, "seed": seed, "level": "proof", "coverage": cov,
        "assumptions": P.get("assumptions", []),
        "wall_s": round(time.time() - t0, 2),
        "violations": len(violations),
    }
    os.makedirs(os.path.join(ROOT, "evidence"), exist_ok=True)
    with open(os.path.join(ROOT, "evidence", pid + ".json"), "w") as f:
        json.dump(ev, f, indent=1)
    for l in sorted(set(known_lines)):
        print(l)
    for n in notes[:10]:
        print("note:", n.split("\n")[0][:300])
    print("%s %s: %d theorems (%s), %d cases, %d distinct non-trivial, %.1fs" % (
        pid, tier, nthm, "checked" if coq["ok"] else "BROKEN: %s" % coq["broken"],
        cov["evaluations"], cov["distinct_nontrivial"], time.time() - t0))
    for path, suffix in violations:
        print("VIOLATION property=%s replay=%s%s" % (pid, path, suffix))
    return 1 if violations else 0


def replay(path):
    d = read_replay(os.path.join(ROOT, path) if not os.path.isabs(path) else path)
    pid, fam = d["property"], d["family"]
    if fam in ("coq", "build"):
        print("this replay names a broken proof/build, not an input:", d.get("theorem-or-correspondence"))
        c = coq_stage(pid, "quick")
        print("coq stage:", "ok" if c["ok"] else c["broken"])
        print(build_stage() or "build ok")
        return 0 if c["ok"] else 1
    err = build_stage()
    if err:
        print(err)
        return 1
    case = normalise(fam, [d["case"]])[0]
    e = run_model([case])[0]
    o = run_impl(fam, [case], timeout=120)[0]
    print("case:     ", case)
    print("expected: ", e)
    print("observed: ", o)
    verdict, detail = families.FAMILIES[fam]["oracle"](sexp.parse(case), sexp.parse(o), sexp.parse(e))
    print("oracle:   ", verdict, "-", detail)
    agree = families.project(fam, e) == families.project(fam, o)
    print("model and implementation", "agree" if agree else "DISAGREE")
    return 0 if (agree and verdict != "violation") else 1


def main():
    args = sys.argv[1:]
    if args and args[0] == "--replay":
        sys.exit(replay(args[1]))
    pid = args[0]
    tier = os.environ.get("VERIF_TIER", "quick")
    if "--tier" in args:
        tier = args[args.index("--tier") + 1]
    seed = int(os.environ.get("VERIF_SEED", "1"))
    sys.exit(check_property(pid, tier, seed))


if __name__ == "__main__":
    main()
