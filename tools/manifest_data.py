HOOK_COMMITS = ["e8d87c5", "afbd338"]
NOTES = ("Every check re-checks the Coq theorems of coq/Props/<id>.v (full .vo build of their dependencies), rebuilds the "
         "harness from /repo's working tree with -tags verif, and runs the correspondence families of that property. "
         "See DESIGN.md for the trusted base and known_findings.json for recorded defects.")
NOT_APPLICABLE = {}
CLAIMED = {
 "C01": {
  "text": "Theorem next_refines_flow / run_refines_flow: for every dialogue, state, choice sequence and fuel, the runner "
          "model's Next (continuation stack, choice re-applied and queues popped inside the recursion) returns exactly "
          "the elements of the flat-continuation specification (Spec/FlowSpec.v: line, options -> body ++ rest, first "
          "true clause, jump abandons everything, stop/end); next_choice_irrelevant: the argument is ignored unless an "
          "option group is waiting. Correspondence: generated dialogues x valid choice paths x layouts x reader splits, "
          "model vs the real DialogueRunner, plus an AST round trip through the implementation's parser.",
  "design_ref": "DESIGN.md section 5, C01",
  "note": "Axioms (via Flocq's real-number layer, used only by the number type): ClassicalDedekindReals.sig_not_dec, "
          "sig_forall_dec, functional_extensionality_dep, Classical_Prop.classic. The OutOfFuel outcome is excluded by "
          "hypothesis. Modelled, not verified: the ANTLR parser (the harness checks parse(print(ast)) = ast with the "
          "implementation itself); markup parsing of line text is C13's.",
  "technique": "Coq refinement proof (stack machine -> flat continuation semantics) + differential correspondence check",
 },
 "C12": {
  "text": "Theorems end_absorbing / end_forever: whenever the model's Next reports the end (empty continuation or stop at "
          "any depth), every later call with any argument and fuel reports the end again and returns the identical "
          "state (variables, storer log, host log, visits, RNG, pending command). Correspondence: dialogues biased to "
          "end early, then 3-6 further calls with junk arguments; outcomes, host log and storer log compared.",
  "design_ref": "DESIGN.md section 5, C12",
  "note": "Same axioms as C01 (Flocq's real-number layer). Restoring a snapshot is the only way out of the end state "
          "(C07).",
  "technique": "Coq invariant proof (end state is a fixed point of Next) + differential correspondence check",
 },
 "C20": {
  "text": "Theorems for all operation sequences / all base token streams: the ring buffer refines a FIFO list "
          "(queue_refines_fifo), the slice stack a LIFO list, the NextToken protocol delivers exactly the list-level "
          "stream wrap (pull_sound), and that stream is balanced, never over-closed and ends in one EOF. "
          "Correspondence: op sequences on container.Queue/Stack and token streams of the real lexer vs the extracted model.",
  "design_ref": "DESIGN.md section 5, C20",
  "note": "Axiom-free (Print Assumptions: closed under the global context). Modelled, not verified: the generated ANTLR "
          "lexer that produces the base tokens; Go slices/append. Trusted: extraction (ExtrOcamlBasic), harness, hooks.",
  "technique": "Coq refinement proof (ring buffer -> list, NextToken protocol -> wrap) + differential correspondence check",
 },
}
