HOOK_COMMITS = ["e8d87c5"]
NOTES = ("Every check re-checks the Coq theorems of coq/Props/<id>.v (full .vo build of their dependencies), rebuilds the "
         "harness from /repo's working tree with -tags verif, and runs the correspondence families of that property. "
         "See DESIGN.md for the trusted base and known_findings.json for recorded defects.")
NOT_APPLICABLE = {}
CLAIMED = {
 "C20": {
  "text": "Theorems for all operation sequences / all base token streams: the ring buffer refines a FIFO list "
          "(queue_refines_fifo), the slice stack a LIFO list, the NextToken protocol delivers exactly the list-level "
          "stream wrap (pull_sound), and that stream is balanced, never over-closed and ends in one EOF. "
          "Correspondence: op sequences on container.Queue/Stack and token streams of the real lexer vs the extracted model.",
  "design_ref": "DESIGN.md section 5, C20",
  "note": "Axiom-free (Print Assumptions: closed under the global context). Modelled, not verified: the generated ANTLR "
          "lexer that produces the base tokens; Go slices/append. Trusted: extraction (ExtrOcamlBasic), harness, hooks.",
  "technique": "Coq refinement proof (ring buffer -> list, NextToken protocol -> wrap) + differential correspondence check",
 },
}
