HOOK_COMMITS = ["e8d87c5", "afbd338", "0cc5209", "6c680dd", "e0f143d", "346dd2e"]
NOTES = ("Every check re-checks the Coq theorems of coq/Props/<id>.v (full .vo build of their dependencies), rebuilds the "
         "harness from /repo's working tree with -tags verif, and runs the correspondence families of that property. "
         "See DESIGN.md for the trusted base and known_findings.json for recorded defects.")
NOT_APPLICABLE = {}
CLAIMED = {
 "C04": {
  "text": "Partial. Proved on a transcription of the lexer grammar's text modes plus the listener's token joining: "
          "every character of a literal text written with the printer's escapes - at the first position or later - is "
          "read back exactly, trailing hashtags come back in order without '#' and never in the text, a trailing comment "
          "disappears, optional escapes are equivalent (known finding D21 proved as a refutation). Proved end to end for "
          "literal text (lexer transcription, then the markup phase): a line written as ANY sequence of characters - each "
          "escapable one with or without its backslash, single '<' and '/', plain ']', escaped brackets - with hashtags "
          "or a comment after it is returned with every escape resolved, trimmed (literal_text_resolved*); the one "
          "excluded inner shape, an escaped backslash directly before a plain ']', really fails (known finding D27, "
          "proved as a refutation). Proved on the runner "
          "model: option groups keep every option in order with its tags, Disabled is false without a condition and the "
          "negated boolean otherwise, interpolated values are concatenated in order in their display forms; a number "
          "whose value is an integer in the int64 range is displayed as that integer's digits (optional minus sign, "
          "digits only), booleans as True/False, strings verbatim. The "
          "generated lexer itself and strconv's number formatting are modelled and compared on every run; the escapes "
          "family runs token lists of known meaning through NewDialogueRunner/Next and judges the implementation against "
          "that meaning, independently of the model.",
  "design_ref": "DESIGN.md section 5, C04",
  "note": "The theorem on first characters excludes texts starting with '-' or '=' (only '->' and '===' start another "
          "statement; the correspondence covers them). Inline expressions and conditions inside a line are not in the "
          "transcription (they are exercised through the runner families).",
  "technique": "Coq proofs on a grammar transcription and the runner model + differential correspondence checks",
 },
 "C18": {
  "text": "Partial. Data-race freedom cannot be stated about an executable Gallina model: it is observed, not proved - "
          "groups of goroutines create and drive their own runners under the race detector and each trace is compared "
          "with the model's solo trace. Proved is the logical half: in the model a runner owns all of its state, so for "
          "any number of runners and ANY interleaving of their operations each runner's state is that of its solo run "
          "(interleaving_projection).",
  "design_ref": "DESIGN.md section 5, C18",
  "note": "Package-level variables of the Go code (argConverterByGoalKind, endOfCharacterMarker, typeError, ANTLR static "
          "data and its DFA caches) are constants of the model; whether they stay read-only / synchronised is what the "
          "race detector run checks.",
  "technique": "Coq frame proof over interleavings + race-detector soak with trace comparison against the model",
 },
 "C05": {
  "text": "Partial. Which byte strings are valid scripts is decided by the generated ANTLR lexer/parser (not modelled, "
          "cannot be regenerated offline), so the acceptance claim is checked by differential fuzzing, not proved: "
          "mutated programs, soups, random bytes, reader splits and seeds are loaded and the outcome is judged against an "
          "independent run of the generated code with its own error listeners. Proved are the hand-written parts on the "
          "way: the indentation-aware lexer wrapper delivers a complete stream for every base stream unless an "
          "indentation mixes tabs and blanks (its only panic, recovered into an error), returns EOF at once on empty "
          "input, seeds over [0-9a-z] are accepted, a runner exists exactly when there is a node and starts at the first. "
          "The statement rules of the generated parser together with the listener are modelled as a recursive descent over "
          "the lexer's tokens (Syntax/StmtParser.v, token numbering and operator maps regenerated from the Go source on every "
          "run by tools/gen_tokentable.py): proved that lexer errors refuse the input, that acceptance means nodes followed by "
          "the end of input, and that every well-formed written statement sequence is accepted and read as the dialogue it "
          "stands for (C05_written_statements_are_accepted), lifted to whole scripts with the model's own fuel proved "
          "sufficient (C05_every_written_script_is_loaded: from_reader 0 (p_script tags ns) = Some (map mean_node ns); "
          "C05_every_written_script_is_loaded_real_tokens with expressions as real tokens); family stmtparse compares this model "
          "with tree.FromReader on the real lexer's tokens for printed, mutated, cut and soup inputs (accept/refuse and the "
          "dialogue built), with an independent expectation for printed programs.",
  "design_ref": "DESIGN.md section 5, C05",
  "note": "Not covered by any theorem: panics and non-termination inside ANTLR's generated code and runtime, and the "
          "listener on trees produced by error recovery (the repaired FromReader does not walk such trees).",
  "technique": "Coq proofs for the hand-written loader parts and for a statement-parser model (token table regenerated from source, parse(print)=id theorem) + differential fuzzing against an independent ANTLR syntax check",
 },
 "C08": {
  "text": "Partial. Proved for the hand-written indentation wrapper (through the NextToken protocol theorem of C20): the "
          "token stream handed to the parser depends only on the order type of the indentation widths (any strictly "
          "monotone re-labelling: 1-8 blanks or tabs per level) and blank / whitespace-only / comment-only lines at any "
          "indentation are transparent. Proved for the expression rule (parser model over the precedence table "
          "regenerated from the Go source on every run): redundant parentheses never change the parsed expression "
          "(C08_redundant_parentheses_never_matter, minimal and maximal parenthesisation agree). Proved for the statement rules "
          "(parser + listener model Syntax/StmtParser.v over the token table regenerated from the Go source): every written "
          "statement sequence - lines, option groups, if/elseif/else, set, declare, call, jump, generic commands, with an "
          "INDENT ... DEDENT block around any run of statements at any depth - is read back as the dialogue it stands for, so "
          "whether and how far a body is indented does not matter to the parser "
          "(C08_written_statements_are_read_back_whatever_is_indented, C08_an_indented_block_is_the_statements_in_it, "
          "C08_every_written_script_is_loaded for whole scripts with headers and file tags, no fuel premise; "
          "C08_every_written_script_is_loaded_real_tokens with the expressions written as tokens of the real vocabulary - "
          "no parameter left, the one condition being that each numeral's text is read back as that number); "
          "family stmtparse compares the model with tree.FromReader on the real lexer's tokens. Not proved: that the "
          "generated lexer/parser treat CRLF, operator spellings, blanks inside commands and reader splits alike - every "
          "generated program is rendered under 11 layouts and all parsed dialogues and traces are compared; family "
          "exprparse writes expressions with random spellings and redundant parentheses. Known finding D10.",
  "design_ref": "DESIGN.md section 5, C08",
  "note": "The wrapper and parenthesis theorems are axiom-free (closed under the global context); the statement-level "
          "theorems mention the number type and inherit the four standard-library axioms of Flocq's real-number layer. The "
          "statement-level round trip is at token level: the lexer (text -> tokens) is not modelled; expressions are written by "
          "any writer the expression parser reads back (a parameter of the theorem; an instance for variable-only expressions "
          "is given, numerals would need number(string(x)) = x).",
  "technique": "Coq proof on the indentation wrapper model, on the expression-parser model and on the statement-parser model (tables regenerated from source) + metamorphic correspondence check across layouts",
 },
 "C16": {
  "text": "Theorems over a universe of Go types described by what reflect reports (kind, identity of a defined type, implements error, channel "
          "direction/element): for every signature and argument list, the arguments the input converter produces satisfy "
          "reflect.Value.Call's precondition (count and exact parameter types, named types and variadic tails included), "
          "so an accepted function or command never panics in the bridge; nil, non-functions and nil function values are "
          "refused; registration succeeds exactly for the bridgeable signatures; booleans/strings pass unchanged and "
          "numbers are converted to the declared kind. Correspondence: generated signatures (two defined types per kind) x "
          "argument lists; adjacent calls of a command are also issued back to back and must deliver the same arguments.",
  "design_ref": "DESIGN.md section 5, C16",
  "note": "reflect (Kind, ConvertibleTo, Convert, Call's panic conditions), goroutines and channels are modelled, not "
          "verified. Out-of-range float->int conversions follow amd64.",
  "technique": "Coq proof by induction over parameter lists + differential correspondence check with reflect-built probes",
 },
 "C19": {
  "text": "Partial. Proved through Flocq's real-number semantics, for EVERY double: floor(x) <= x < floor(x)+1, "
          "ceil(x)-1 < x <= ceil(x), integer(x) truncates toward zero, round(x) is within 1/2 of x, all four are integers; "
          "for finite |x| < 2^52: inc(x) = floor(x)+1 exactly (least integer greater than x) and dec(x) = ceil(x)-1 "
          "exactly; bool(string(b)) = b, identity on values of the target type, non-boolean / non-numeric strings are "
          "errors; integer(x) + decimal(x) = x exactly for EVERY finite double (the fractional part x - trunc(x) is itself "
          "a double, has the sign of x and magnitude below 1); round_places: for every finite x and 0 <= n <= 22, "
          "|round_places(x,n) - x| <= (1/2)10^-n (1+u) + |x|(2u+u^2) + 3 eta with u = 2^-53, eta = 2^-1075 "
          "(C19_round_places_envelope: the two roundings of product and quotient, math.Round exact, 10^n exact by a "
          "finite sweep) - the strict half-unit bound is refuted (known finding D23). Not proved: number(string(x)) = x "
          "(correctness of the shortest-digits formatter against the parser), judged on every generated input by an "
          "exact-rational oracle.",
  "design_ref": "DESIGN.md section 5, C19",
  "note": "Axioms: ClassicalDedekindReals.sig_not_dec, sig_forall_dec, functional_extensionality_dep, "
          "Classical_Prop.classic (Coq's real numbers). IEEE-754 binary64 = Flocq binary_float 53 1024, round to "
          "nearest even; math.Floor/Ceil/Trunc/Round = Bnearbyint DN/UP/ZR/NA.",
  "technique": "Coq/Flocq proofs about the real values of the results + exact-rational oracle and bit-exact correspondence check",
 },
 "C17": {
  "text": "Partial. Proved on the model of CommandStatement.rearrange/split/valueFromCommandText: true/false are "
          "booleans, exactly the words of the shape -?[0-9]+(\\.[0-9]+)? are numbers, every other word is a string; words "
          "written with any non-empty whitespace between them (and any around) are recovered exactly and in order "
          "(fields_join), token boundaries inside the text are irrelevant, inline expressions stay in place; a "
          "registered handler runs once with the evaluated arguments, stop is never dispatched, an unregistered name "
          "is an error. Not proved: that the generated lexer delivers a generic command as COMMAND_TEXT tokens "
          "(keyword-prefixed names included) - observed by the correspondence family; known finding D20.",
  "design_ref": "DESIGN.md section 5, C17",
  "note": "strconv.ParseFloat on decimal literals is the correctly rounded rational model of Num/Decimal.v; "
          "strings.Fields splits on unicode.IsSpace.",
  "technique": "Coq proof of word splitting/classification + differential correspondence check on raw command text",
 },
 "C09": {
  "text": "Partial. Proved: rand.Intn over any raw stream is in [0,n); dice(n) is an integer in [1,n] for every n >= 1, "
          "random_range(a,b) an integer in [a,b] for every a <= b whose width fits an int, wider or empty ranges are "
          "errors; every seed over [0-9a-z] is accepted (base 36 with int64 wrap-around written into the model). "
          "Determinism across executions and processes is a property of the Go runtime: the model is a function of "
          "(dialogue, seed-derived stream, choices, host) and the correspondence family compares it with repeated "
          "in-process executions and a fresh child process. random() is proved finite and in [0,1] for every Int63 "
          "stream, and below 1 unless 17 candidates in a row round to 1 (the model's redraw budget; the real code keeps "
          "drawing).",
  "design_ref": "DESIGN.md section 5, C09",
  "note": "math/rand's source is an oracle stream; only the first 64 raw values are supplied per case.",
  "technique": "Coq proof of range theorems + differential correspondence check with repeated and child-process executions",
 },
 "C02": {
  "text": "Proved for the evaluator model: a binary operation on values is exactly the operator table (unless "
          "the left operand of and/or already decides), operands of different types are an error for all 14 operators, "
          "unary operators, laziness of and/or (the right operand's host calls do not happen), function arguments are "
          "evaluated left to right, each once, stopping at the first failure, then the call. Grouping: the expression "
          "rule of the generated parser is modelled as the precedence-climbing loop its Go code spells out "
          "(Syntax/ExprParser.v) over the table of precedence-predicate levels that tools/gen_exprtable.py extracts from "
          "internal/parser/yarnspinner_parser.go and internal/tree/expression.go on every run; proved against that "
          "table: it orders the operators as the property states (C02_precedence_table), every expression tree written "
          "down with parentheses where the table requires them and anywhere else is read back as that tree "
          "(C02_written_expression_is_read_back, minimal and full parenthesisation as corollaries), a written form "
          "determines its tree, a o1 b o2 c groups to the tighter operator and otherwise to the left, prefix operators "
          "take only the following primary, parentheses override. Partial: that AdaptivePredict takes the decision the "
          "precedence predicates prescribe, the lexer (spellings, literals) and the listener's callback stack are "
          "modelled/observed - family exprparse compares the parser model with the implementation's parser+listener on "
          "token sequences (and judges written-down trees against the generator's own table), family exprs requires the "
          "AST round trip before comparing values. Proofs/ExprFuelProofs.v makes the fuel explicit: 2 * tokens + 1 suffice, so the fixed fuel of parse_expression (4 * tokens + 4) reads every written form back (written_expression_parses).",
  "design_ref": "DESIGN.md section 5, C02",
  "note": "Numbers are Flocq binary64 with round-to-nearest-even; math.Mod is an exact remainder model. Axioms: the four "
          "stdlib axioms behind Flocq's reals for the evaluator theorems; the grouping theorems are closed under the "
          "global context. The parser theorems hold for all sufficient fuel (eventually).",
  "technique": "Coq proof of the operator table and evaluation order; Coq proof of parse(print(tree)) = tree for a precedence-climbing model over a table regenerated from the Go source on every run (translator) + differential correspondence checks",
 },
 "C13": {
  "text": "Partial. The model mirrors markup/line_parser.go function by function (markers, properties of every value "
          "type, escapes, replacement markers and processors, close-by-name matcher, character prefix, trimming and "
          "clamping). Proved: the round trip for documents built from plain text, escaped brackets and open / close / "
          "close-all markers with any nesting, overlap and repetition and multi-byte text (markup_document_roundtrip): "
          "the text comes back, there is exactly one attribute per closed marker, its name is the marker's and "
          "TextForAttribute returns exactly the text the marker enclosed - 'enclosed' being defined on the document "
          "itself, without positions; a close marker without an open one is an error. Also: text without markup is "
          "returned as it is (plain_text_identity), TextForAttribute returns exactly [length] characters at [position]. "
          "The same round trip with typed properties (C13_document_with_properties_roundtrip, Proofs/MarkupPropsProofs.v): open "
          "markers written [name k=v ...] or [name=v k=v ...] with decimal integers, decimals (ParseFloat of the text), true/false, quoted strings and bare words - "
          "the attribute of every closed marker carries exactly the property map of what was written (plain_form_written, "
          "short_form_written: parseAttributeMarker on every such written form). "
          "Self-closing markers [name k=v .../] are items of the same documents (one attribute of length 0 at the marker's "
          "position, with its properties; hypothesis: no blank directly after them). "
          "The implicit character attribute (C13_character_prefix_partial, Proofs/MarkupCharacterProofs.v): a line `Name: rest` without markup "
          "and without edge blanks comes back unchanged with exactly one attribute 'character' at 0 covering the name, the colon and the blanks "
          "after it (in characters, multi-byte names included), property name = the name, and TextForAttribute returns exactly that prefix. "
          "The whitespace-trimming rule for one self-closing marker between two plain texts (C13_self_closing_trims_one_blank, Proofs/MarkupTrimProofs.v): at the start or after a blank it swallows exactly one following blank, after any other character none (C13_self_closing_after_nonblank_keeps), with trimwhitespace=false none anywhere (C13_self_closing_trimwhitespace_false). Not proved: replacement markers, the whitespace-trimming rule inside the document round trip, the character prefix in marker documents with edge blanks (proved: C13_character_prefix_with_edge_blanks for lines without markers, C13_document_with_character_prefix and C13_document_with_properties_and_character_prefix for marker documents without edge blanks, C13_explicit_character_marker: an explicit marker of that name suppresses the implicit one) and trimmed "
          "edge blanks inside that round trip. Correspondence: documents from a grammar, "
          "model vs implementation, and for structured documents the implementation vs the meaning the generator knows "
          "by construction (independent oracle).",
  "design_ref": "DESIGN.md section 5, C13",
  "note": "Axioms: the four stdlib axioms behind Flocq's reals (decimal property values). unicode.IsLetter/IsDigit "
          "tables are generated from the toolchain and cross-checked on every run; the two fixed regexps are "
          "hand-written matchers; strconv.ParseFloat/Atoi and fmt.Sprint are modelled.",
  "technique": "Coq proof of the marker round trip on the parser model + differential correspondence check with an independent document-meaning oracle",
 },
 "C14": {
  "text": "Theorem: ParseMarkup on a parser value in any state, after any history of lines (failing ones included), "
          "returns what parsing the line alone returns: every persistent field of LineParser is overwritten before it "
          "is read. Correspondence: histories of lines on one LineParser value vs a fresh one vs the model.",
  "design_ref": "DESIGN.md section 5, C14",
  "note": "The runner-level statement (attributes of a line do not depend on the dialogue prefix) follows because the "
          "runner calls ParseMarkup on the concatenated line text only; it is exercised by the runner families.",
  "technique": "Coq proof of state independence + differential correspondence check over call histories",
 },
 "C15": {
  "text": "Theorems: the fuel of the main loop and of the property loop (one unit per remaining rune plus one) is "
          "sufficient - more fuel never changes the answer - so parsing terminates with a result or an error value for "
          "every rune list and, through Go's decoding, every byte string; every returned attribute has non-negative "
          "position and length inside the returned text (in characters); TextForAttribute never panics on a returned "
          "attribute. Correspondence: arbitrary bytes, mutated documents, fragment soups.",
  "design_ref": "DESIGN.md section 5, C15",
  "note": "The model has no panic outcome because the Go parser has no panic site of its own; panics inside regexp, "
          "strings or strconv would only be seen by the correspondence run.",
  "technique": "Coq proof (fuel sufficiency, range invariant) + differential correspondence check / fuzz streams",
 },
 "C03": {
  "text": "Theorems: a set/declare statement stores exactly SetSpec.set_spec(previous, op, value) with one Set* call "
          "(exec_set_spec), a failing statement changes neither the store nor the storer's call log, types are stable, "
          "compound assignment to an unknown name is an error, the in-memory storer holds a name under at most one type "
          "after any sequence of writes and across any Next, GetValue and GetValues agree on every name for every "
          "store built by writes and across any Next (and disagree without the invariant - defect D2), and a host write "
          "is what the next read returns. "
          "Correspondence: assignment histories with host writes on a recording Storer.",
  "design_ref": "DESIGN.md section 5, C03",
  "note": "Axioms: the four stdlib axioms behind Flocq's reals (number type). The host storer is modelled as the "
          "in-memory storer plus a call log; a host Storer with other behaviour is outside the model.",
  "technique": "Coq proof of the assignment table and storer invariant + differential correspondence check",
 },
 "C06": {
  "text": "Theorems: Next never returns the panic outcome for any dialogue, state and fuel when the choice is in range "
          "(next_no_panic); expression evaluation has no panic outcome (eval_no_crash); after an error no choice is "
          "pending; each fault class of the property is an error (null, unknown variable/function/node/command, "
          "value-less function, dice/random_range out of domain). Known finding D7 is proved as "
          "jump_cycle_diverges (non-termination on a non-yielding jump cycle). Correspondence: fault-seeded scripts, "
          "outcome classes compared.",
  "design_ref": "DESIGN.md section 5, C06",
  "note": "Panic sites are those of the hand-written Go code as transcribed into the model; panics inside the Go "
          "runtime/stdlib that the model does not describe would show up only in the correspondence run. Termination "
          "is excluded by the OutOfFuel outcome (known finding D7).",
  "technique": "Coq proof (absence of the panic outcome, fault lemmas) + differential correspondence check",
 },
 "C07": {
  "text": "Theorems on the functional model: restoring into any receiver state yields exactly the node-entry state the "
          "snapshot records (stack = the node's body, no pending choice or command, variables, visits, checkpoint), "
          "independently of the receiver; a snapshot taken right after equals the restored one; an unknown node is an "
          "error that changes nothing; checkpoints are taken at jumps and untouched by assignments. 'Continues exactly as "
          "the original did from that node entry' is proved as a simulation (restore_continues_as_original): what Next "
          "returns depends only on the continuation, the variables as a map, the pending command, the current node, the "
          "visit counts, the host's command behaviour and the random stream (next_sim), and rebuilding a store from "
          "GetValues gives the same map; hence a snapshot of a runner at a node entry restored into ANY runner yields "
          "the same elements for every subsequent choice sequence, and two runners restored from one snapshot continue "
          "identically (restored_runners_agree). Self-containedness is proved on a second, heap-explicit model of "
          "Snapshot / RestoreAt / the jump checkpoint / the storer (Yarn/SnapHeap.v: Go maps are heap objects, every "
          "make+copy loop an allocation): in every configuration reachable by any history of runner creations, "
          "assignments, jumps, snapshots, restores and host edits of snapshots no map is shared (C07_no_map_is_ever_shared), "
          "hence nothing any runner does changes a snapshot (C07_snapshot_is_self_contained) or another runner - also one "
          "restored from the same snapshot (C07_runners_do_not_influence_one_another); the pre-repair Snapshot() that hands "
          "out the runner's own maps is refuted on the same model (shared_snapshot_is_not_self_contained).",
  "design_ref": "DESIGN.md section 5, C07",
  "note": "Partial: that the Go code allocates where the heap model allocates is observed by family snap (old snapshot "
          "objects re-read after further steps, two runners restored from one snapshot), not proved. The simulation "
          "assumes the same host behaviour and the same random stream to come in both runners (the property restricts "
          "itself to scripts without random functions).",
  "technique": "Coq proof of restore/snapshot state equations, of a simulation through Next, and of a separation invariant + frame theorems on a heap-explicit model + differential correspondence check over operation histories",
 },
 "C10": {
  "text": "Theorems: with a pending command Next returns Waiting and changes only the poll count (pending_is_inert), on "
          "completion it behaves exactly like the same state without a pending command (resume_after_completion, then "
          "C01), an error is surfaced once, a registered handler is invoked exactly once with the evaluated arguments, "
          "stop is never dispatched. <<wait n>>: the duration handed to time.Sleep, time.Duration(n * 1e9), is at least "
          "n seconds up to one binary64 rounding and the truncation to whole nanoseconds, for every finite n >= 0, "
          "fractional n included (C10_wait_duration_at_least_n_seconds, through Flocq), so a completion is not reported "
          "earlier (C10_wait_not_reported_early). Correspondence: scripts x completion schedules imposed through "
          "harness-owned channels; family waits measures <<wait n>> on real timers (sub-millisecond, fractional "
          "millisecond, zero; a measured time below n seconds is a violation whatever the load); the three handler shapes "
          "of ConvertAndAddCommand (two of them running on goroutines of the bridge, blocked until the schedule releases "
          "them), snapshots and restores while a command is pending and re-execution of the command afterwards (family "
          "convcmds).",
  "design_ref": "DESIGN.md section 5, C10",
  "note": "Partial: data-race freedom is outside the model (channels are an option cell filled by the environment; "
          "goroutine-backed handlers are exercised by the harness, which polls Next until the bridge has reported when a "
          "command is due); that time.Sleep(d) returns no earlier than d later is the Go runtime's contract, observed only.",
  "technique": "Coq proof of the pending-command automaton and of the wait duration bound (Flocq) + differential correspondence check with imposed schedules and real timers",
 },
 "C11": {
  "text": "Theorem: for every history of Next calls and restores, visited_count(n) = count at the last restore + number "
          "of successful jumps since then that left n if n is a tracked node, and stays at the restored value for "
          "untracked nodes and non-nodes (invariant VInv over a ghost jump log); visited(n) = (count > 0); counts never "
          "decrease across Next. Correspondence: jump graphs rendering every counter in every line.",
  "design_ref": "DESIGN.md section 5, C11",
  "note": "Axioms: the four stdlib axioms behind Flocq's reals. The ghost fields jlog/vbase exist only in the model.",
  "technique": "Coq invariant proof over operation histories + differential correspondence check",
 },
 "C01": {
  "text": "Theorem next_refines_flow / run_refines_flow: for every dialogue, state, choice sequence and fuel, the runner "
          "model's Next (continuation stack, choice re-applied and queues popped inside the recursion) returns exactly "
          "the elements of the flat-continuation specification (Spec/FlowSpec.v: line, options -> body ++ rest, first "
          "true clause, jump abandons everything, stop/end); next_choice_irrelevant: the argument is ignored unless an "
          "option group is waiting. Correspondence: generated dialogues x valid choice paths x layouts x reader splits, "
          "model vs the real DialogueRunner, plus an AST round trip through the implementation's parser.",
  "design_ref": "DESIGN.md section 5, C01",
  "note": "Axioms (via Flocq's real-number layer, used only by the number type): ClassicalDedekindReals.sig_not_dec, "
          "sig_forall_dec, functional_extensionality_dep, Classical_Prop.classic. The OutOfFuel outcome is excluded by "
          "hypothesis. Modelled, not verified: the ANTLR parser (the harness checks parse(print(ast)) = ast with the "
          "implementation itself); markup parsing of line text is C13's.",
  "technique": "Coq refinement proof (stack machine -> flat continuation semantics) + differential correspondence check",
 },
 "C12": {
  "text": "Theorems end_absorbing / end_forever: whenever the model's Next reports the end (empty continuation or stop at "
          "any depth), every later call with any argument and fuel reports the end again and returns the identical "
          "state (variables, storer log, host log, visits, RNG, pending command). Correspondence: dialogues biased to "
          "end early, then 3-6 further calls with junk arguments; outcomes, host log and storer log compared.",
  "design_ref": "DESIGN.md section 5, C12",
  "note": "Same axioms as C01 (Flocq's real-number layer). Restoring a snapshot is the only way out of the end state "
          "(C07).",
  "technique": "Coq invariant proof (end state is a fixed point of Next) + differential correspondence check",
 },
 "C20": {
  "text": "Theorems for all operation sequences / all base token streams: the ring buffer refines a FIFO list "
          "(queue_refines_fifo), the slice stack a LIFO list, the NextToken protocol delivers exactly the list-level "
          "stream wrap (pull_sound), and that stream is balanced, never over-closed and ends in one EOF. "
          "Correspondence: op sequences on container.Queue/Stack and token streams of the real lexer vs the extracted model.",
  "design_ref": "DESIGN.md section 5, C20",
  "note": "Axiom-free (Print Assumptions: closed under the global context). Modelled, not verified: the generated ANTLR "
          "lexer that produces the base tokens; Go slices/append. Trusted: extraction (ExtrOcamlBasic), harness, hooks.",
  "technique": "Coq refinement proof (ring buffer -> list, NextToken protocol -> wrap) + differential correspondence check",
 },
}
